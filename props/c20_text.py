"""C20(c): text inputs are data. Hostile values are planted one site at a time in
TTX / .fea / .designspace / UFO (.glif, .plist) inputs; the normal downstream
operation runs under a monitor (audit hook + sentinel + file-system diff)."""
import builtins
import os
import re
import shutil
import sys

from sim import corpus, prng

# ---------------------------------------------------------------------------
# monitor


class Sentinel(list):
    def hit(self, *a):
        self.append(a)
        return 1


SYNTHETIC = ("<string>", "<stdin>", "<unknown>", "<module>", "<lambda>", "<expr>", "<eval>")
SPAWN_EVENTS = ("os.system", "subprocess.Popen", "os.exec", "os.posix_spawn", "os.spawn", "os.startfile", "pty.spawn")
FS_EVENTS = ("os.rename", "os.remove", "os.unlink", "os.mkdir", "os.rmdir", "os.truncate", "os.symlink", "os.link", "os.chmod", "os.chown", "shutil.move", "shutil.rmtree", "shutil.copyfile", "shutil.copytree")


class Monitor:
    def __init__(self):
        self.armed = False
        self.events = []

    def hook(self, event, args):
        if not self.armed:
            return
        try:
            if event == "exec":
                code = args[0]
                fn = getattr(code, "co_filename", "")
                if fn.startswith("<") and not fn.startswith("<frozen"):
                    self.events.append(("exec", (fn, code.co_code, code.co_names, repr(code.co_consts))))
            elif event == "import":
                self.events.append(("import", args[0]))
            elif event.startswith(SPAWN_EVENTS):
                self.events.append(("spawn", event))
            elif event == "open":
                path, mode, flags = args[0], args[1], args[2]
                writing = False
                if isinstance(mode, str):
                    writing = any(c in mode for c in "wax+")
                elif isinstance(flags, int):
                    writing = bool(flags & (os.O_WRONLY | os.O_RDWR | os.O_CREAT | os.O_TRUNC | os.O_APPEND))
                if isinstance(path, (str, bytes, os.PathLike)):
                    p = os.fsdecode(path)
                    self.events.append(("write" if writing else "read", os.path.abspath(p)))
            elif event in FS_EVENTS:
                for a in args[:2]:
                    if isinstance(a, (str, bytes, os.PathLike)):
                        self.events.append(("write", os.path.abspath(os.fsdecode(a))))
        except Exception:  # never let the monitor disturb the run
            pass

    def run(self, fn):
        """Arms the hook, runs fn, returns (events, exception or None)."""
        self.events = []
        exc = None
        self.armed = True
        try:
            try:
                fn()
            except BaseException as e:  # noqa: any failure type is acceptable for clause (c)
                if isinstance(e, KeyboardInterrupt):
                    raise
                exc = e
        finally:
            self.armed = False
        return list(self.events), exc


_MON = None


def monitor():
    global _MON
    if _MON is None:
        _MON = Monitor()
        sys.addaudithook(_MON.hook)
    return _MON


# ---------------------------------------------------------------------------
# canaries

DECOY = "verif_decoy_module"


def canaries(esc_abs):
    """family name -> hostile string. esc_abs: an absolute path outside the requested location."""
    return {
        "expr_call": "__verif_canary__.hit('expr_call')",
        "expr_list": "[__verif_canary__.hit('expr_list')]",
        "expr_import": "__import__('%s').x" % DECOY,
        "expr_os": "__import__('os').system('echo pwned > %s')" % (esc_abs + "_sys"),
        "expr_open": "open(%r,'w').write('pwned')" % (esc_abs + "_open"),
        "expr_num": "1 if __verif_canary__.hit('expr_num') else 0",
        "expr_tuple": "(1, __verif_canary__.hit('expr_tuple'))",
        "fmt_brace": "{0.__class__.__mro__}{__verif_canary__}",
        "fmt_percent": "%(__verif_canary__)s%n%s",
        "fmt_ext": "X{ext.__class__}Y",
        "trav_rel": "../../../ESCAPED_rel",
        "trav_rel_deep": "x/../../../../ESCAPED_deep",
        # exactly as many ".." as it takes to leave the document's own directory from one level down, and a
        # path that leaves on the way although its components balance out
        "trav_rel2": "../../ESCAPED_two.glif",
        "trav_balanced": "../../ESCAPED_bal/x/y.glif",
        "trav_abs": esc_abs + "_abs",
        "trav_nul": "..\\..\\..\\ESCAPED_bs",
        "module": DECOY,
        "entity": "&xxe;",
    }


XXE_DOCTYPE = '<!DOCTYPE verif [<!ENTITY xxe SYSTEM "file://%s"><!ENTITY big "%s">]>'


# ---------------------------------------------------------------------------
# workflows

SMALL_TTX = 120_000


def _ttx_inputs():
    out = []
    for rel in corpus.ttx_files():
        try:
            if os.path.getsize(corpus.path(rel)) <= SMALL_TTX:
                out.append(rel)
        except OSError:
            pass
    return out


def _fea_inputs():
    return [r for r in corpus.fea_files() if os.path.getsize(corpus.path(r)) < 40_000]


def _ufo_inputs():
    return [r for r in corpus.ufos() if os.path.isdir(corpus.path(r)) and r.startswith("ufoLib/")]


DS_BUILD = "varLib/data/Build.designspace"
DS_MASTERS = "varLib/data/master_ttx_interpolatable_ttf"
FEA_FONT = "feaLib/data/GPOS_1.ttx"


def generate(ctx, r, idx):
    wf = r.choice(["ttx", "ttx", "ttx", "ttx", "fea", "designspace", "designspace", "ufo", "ufo", "ufowrite"])
    fams = sorted(canaries("/x"))
    h = {"kind": "text", "wf": wf, "ops": []}
    if wf == "ttx":
        h["input"] = r.choice(_ttx_inputs())
        n = r.randint(4, 12)
        h["ops"] = [["site", r.randrange(1 << 30), r.choice(fams)] for _ in range(n)]
        h["then"] = r.choice(["save", "save", "dump_split", "cli"])
    elif wf == "fea":
        h["input"] = r.choice(_fea_inputs())
        h["ops"] = [["site", r.randrange(1 << 30), r.choice(fams)] for _ in range(r.randint(3, 8))]
    elif wf == "designspace":
        h["input"] = DS_BUILD if r.random() < 0.6 else r.choice(corpus.designspaces())
        h["ops"] = [["site", r.randrange(1 << 30), r.choice(fams)] for _ in range(r.randint(2, 5))]
        if h["input"] == DS_BUILD:
            h["ops"] += [["vf", r.choice(["name", "filename", "both", "twin", "twin"]), r.choice(fams)] for _ in range(3)]
        h["outdir"] = r.random() < 0.7
    elif wf in ("ufo", "ufowrite"):
        h["input"] = r.choice(_ufo_inputs())
        h["ops"] = [["site", r.randrange(1 << 30), r.choice(fams)] for _ in range(r.randint(3, 8))]
    return h


# ---- site rewriting (harness side; lxml is only used to locate and replace values)


def _xml_sites(root):
    sites = []
    for el in root.iter():
        if not isinstance(el.tag, str):
            continue
        for k in el.attrib:
            sites.append((el, "attr", k))
        if el.text and el.text.strip():
            sites.append((el, "text", None))
    return sites


def plant_xml(data, sel, value, want_entity=False, secret=None):
    """Returns hostile XML bytes with one attribute value / text node replaced."""
    from lxml import etree

    parser = etree.XMLParser(resolve_entities=False, no_network=True, remove_blank_text=False)
    root = etree.fromstring(data, parser)
    sites = _xml_sites(root)
    if not sites:
        return None, None
    el, kind, key = sites[sel % len(sites)]
    where = "%s/@%s" % (el.tag, key) if kind == "attr" else "%s/text()" % el.tag
    marker = "VERIFCANARYMARK"
    if kind == "attr":
        el.set(key, marker)
    else:
        el.text = marker
    out = etree.tostring(root, xml_declaration=True, encoding="UTF-8")
    if want_entity:
        esc = "&xxe;"
        doctype = (XXE_DOCTYPE % (secret, "B" * 64)).encode()
        out = out.replace(b"?>", b"?>\n" + doctype, 1)
    else:
        esc = value.replace("&", "&amp;").replace("<", "&lt;").replace(">", "&gt;").replace('"', "&quot;")
    out = out.replace(marker.encode(), esc.encode("utf-8"))
    return out, where


FEA_TOKEN = re.compile(r'"[^"\n]*"|\b[A-Za-z_][A-Za-z0-9_.]*\b|-?\b\d+\b')


def plant_fea(text, sel, value):
    toks = [m for m in FEA_TOKEN.finditer(text)]
    if not toks:
        return None, None
    m = toks[sel % len(toks)]
    tok = m.group(0)
    new = '"%s"' % value.replace('"', "'") if tok.startswith('"') else value
    return text[: m.start()] + new + text[m.end() :], "token %r" % tok[:20]


class Sandbox:
    """scratch/a/b/c/work/{in,out}; everything outside 'out' (or the stated root) is watched."""

    def __init__(self, scratch):
        self.root = scratch
        self.work = os.path.join(scratch, "a", "b", "c", "work")
        self.inp = os.path.join(self.work, "in")
        self.out = os.path.join(self.work, "out")
        os.makedirs(self.inp)
        os.makedirs(self.out)
        self.secret = os.path.join(scratch, "a", "secret.txt")
        with open(self.secret, "w") as f:
            f.write("VERIF-SECRET-CONTENT")
        self.esc_abs = os.path.join(scratch, "a", "b", "ABS_ESCAPED")
        # decoy module: importing it flips the sentinel
        self.decoy_dir = os.path.join(scratch, "decoy")
        os.makedirs(self.decoy_dir)
        with open(os.path.join(self.decoy_dir, DECOY + ".py"), "w") as f:
            f.write("import builtins\nbuiltins.__verif_canary__.hit('decoy-imported')\nx = 1\n")

    def tree(self, skip):
        out = {}
        for dp, dn, fns in os.walk(self.root):
            if any(os.path.abspath(dp) == s or os.path.abspath(dp).startswith(s + os.sep) for s in skip):
                dn[:] = []
                continue
            for fn in fns:
                p = os.path.join(dp, fn)
                try:
                    st = os.stat(p)
                    out[os.path.relpath(p, self.root)] = (st.st_size, st.st_mtime_ns)
                except OSError:
                    pass
            for d in dn:
                ad = os.path.abspath(os.path.join(dp, d))
                if any(ad == s or ad.startswith(s + os.sep) for s in skip):
                    continue
                out[os.path.relpath(ad, self.root) + "/"] = 0
        return out


def _masters(ctx):
    """Binary masters for Build.designspace, compiled once per process."""
    w = ctx.world if ctx is not None else {}
    if "ds_masters" not in w:
        import io
        from fontTools.ttLib import TTFont

        ms = {}
        d = corpus.path(DS_MASTERS)
        for fn in sorted(os.listdir(d)):
            if fn.startswith("TestFamily-") and fn.endswith(".ttx"):
                f = TTFont(recalcTimestamp=False)
                f.importXML(os.path.join(d, fn))
                b = io.BytesIO()
                f.save(b)
                ms[fn[:-4] + ".ttf"] = b.getvalue()
        w["ds_masters"] = ms
    return w["ds_masters"]


def _fea_font(ctx):
    from props import c16_pipes

    return c16_pipes.fea_font()


def _copytree(src, dst):
    shutil.copytree(src, dst)


def execute(ctx, h, scratch):
    from sim import world

    mon = monitor()
    events, probes, faults = [], {}, {}
    res = {"events": events, "probes": probes, "faults": faults, "states": [], "known": [], "nontrivial": False}
    wf = h["wf"]
    sb = Sandbox(scratch)
    cans = canaries(sb.esc_abs)
    if not hasattr(builtins, "__verif_canary__"):
        builtins.__verif_canary__ = Sentinel()
    sent = builtins.__verif_canary__
    ops = h["ops"]
    # a clean run of the same workflow first: its synthetic exec events are the allowed ones
    baseline_exec = set()
    all_ops = [None] + list(ops)
    for opi, op in enumerate(all_ops):
        for d in (sb.inp, sb.out):
            shutil.rmtree(d, ignore_errors=True)
            os.makedirs(d)
        value = cans[op[2]] if op else None
        entity = bool(op) and op[2] == "entity"
        try:
            job, allowed, where = build_job(ctx, h, wf, sb, op, value, entity)
        except Exception as e:  # harness could not plant (unparseable input): skip site
            events.append(["plant-failed", type(e).__name__])
            continue
        if job is None:
            continue
        del sent[:]
        before = sb.tree(skip=[os.path.abspath(a) for a in allowed])
        saved_path = list(sys.path)
        sys.path.insert(0, sb.decoy_dir)
        sys.modules.pop(DECOY, None)
        try:
            with world.isolated(cwd=sb.work):
                evs, exc = mon.run(job)
        finally:
            sys.path[:] = saved_path
            sys.modules.pop(DECOY, None)
        after = sb.tree(skip=[os.path.abspath(a) for a in allowed])
        execs = set(e[1] for e in evs if e[0] == "exec")
        if op is None:
            baseline_exec = execs
            probes["c.clean.%s.%s" % (wf, "ok" if exc is None else "exc")] = 1
            events.append(["clean", wf, type(exc).__name__ if exc else "ok"])
            continue
        res["nontrivial"] = True
        faults["canary." + op[2]] = faults.get("canary." + op[2], 0) + 1
        probes["c.%s.%s" % (wf, "completed" if exc is None else "rejected")] = probes.get("c.%s.%s" % (wf, "completed" if exc is None else "rejected"), 0) + 1
        events.append([op, where, type(exc).__name__ if exc else "ok"])
        res["states"].append("%s|%s|%s" % (wf, op[2], type(exc).__name__ if exc else "ok"))
        bad = None
        if sent:
            bad = ("canary-evaluated", "a hostile value was evaluated as code: sentinel hits %s" % (list(sent)[:3],))
        elif any(e[0] == "spawn" for e in evs):
            bad = ("process-spawned", "process creation event %s" % [e[1] for e in evs if e[0] == "spawn"][:2])
        elif execs - baseline_exec and any(_mentions(ex, value) for ex in execs - baseline_exec):
            bad = ("synthetic-code-executed", "code compiled from input text was executed: %s" % [ex[0] for ex in execs - baseline_exec][:2])
        else:
            outside = []
            for e in evs:
                if e[0] == "write" and not _inside(e[1], allowed) and _inside(e[1], [sb.root]):
                    outside.append(e[1])
                elif e[0] == "write" and not _inside(e[1], [sb.root]) and not _harmless(e[1]):
                    outside.append(e[1])
                elif e[0] == "read" and os.path.abspath(e[1]) == os.path.abspath(sb.secret):
                    bad = ("external-entity-read", "the external entity target %s was opened" % e[1])
            changed = sorted(k for k in set(before) | set(after) if before.get(k) != after.get(k))
            if not bad and (outside or changed):
                bad = ("output-outside-requested-location", "writes outside %s: %s" % ([os.path.relpath(a, sb.root) for a in allowed], [os.path.relpath(p, sb.root) if _inside(p, [sb.root]) else p for p in outside][:3] or changed[:3]))
        if not bad and entity:
            # the secret must not have been copied into any output
            for dp, dn, fns in os.walk(sb.out):
                for fn in fns:
                    try:
                        with open(os.path.join(dp, fn), "rb") as f:
                            if b"VERIF-SECRET-CONTENT" in f.read():
                                bad = ("external-entity-expanded", "secret file content found in %s" % fn)
                    except OSError:
                        pass
        if bad and not res.get("violation"):
            res["violation"] = {
                "class": "text-not-data:%s:%s" % (wf, bad[0]),
                "detail": "%s | workflow=%s input=%s site=%s canary=%s(%r) outcome=%s" % (bad[1], wf, h.get("input"), where, op[2], value[:60], type(exc).__name__ if exc else "completed"),
                "sig": {"wf": wf, "what": bad[0], "family": op[2], "where": where},
            }
    if res.get("violation"):
        from props import c20

        c20._match_known(h, res)
    return res


def _mentions(ex, value):
    fn, co_code, names, consts = ex
    return "__verif_canary__" in names or DECOY in consts or "verif" in consts.lower()


def _inside(p, roots):
    p = os.path.abspath(p)
    return any(p == os.path.abspath(r) or p.startswith(os.path.abspath(r) + os.sep) for r in roots)


def _harmless(p):
    return p.startswith(("/dev/", "/proc/"))


# ---------------------------------------------------------------------------
# job builders: return (callable, [allowed output locations], site description)


def build_job(ctx, h, wf, sb, op, value, entity):
    if wf == "ttx":
        return job_ttx(ctx, h, sb, op, value, entity)
    if wf == "fea":
        return job_fea(ctx, h, sb, op, value)
    if wf == "designspace":
        return job_designspace(ctx, h, sb, op, value, entity)
    if wf == "ufo":
        return job_ufo(ctx, h, sb, op, value, entity, mode="rewrite")
    if wf == "ufowrite":
        return job_ufo(ctx, h, sb, op, value, entity, mode="inplace")
    raise ValueError(wf)


def job_ttx(ctx, h, sb, op, value, entity):
    with open(corpus.path(h["input"]), "rb") as f:
        data = f.read()
    where = "clean"
    if op:
        data, where = plant_xml(data, op[1], value, want_entity=entity, secret=sb.secret)
        if data is None:
            return None, None, None
    src = os.path.join(sb.inp, "font.ttx")
    with open(src, "wb") as f:
        f.write(data)
    then = h.get("then", "save")

    def job():
        from fontTools.ttLib import TTFont

        if then == "cli":
            from fontTools import ttx

            ttx.main(["-q", "-o", os.path.join(sb.out, "font.ttf"), src])
            return
        font = TTFont(recalcTimestamp=False)
        font.importXML(src)
        font.save(os.path.join(sb.out, "font.ttf"))
        if then == "dump_split":
            g = TTFont(os.path.join(sb.out, "font.ttf"))
            g.saveXML(os.path.join(sb.out, "dump.ttx"), splitTables=True, splitGlyphs=True)

    return job, [sb.out], where


def job_fea(ctx, h, sb, op, value):
    with open(corpus.path(h["input"]), "r", encoding="utf-8", errors="replace") as f:
        text = f.read()
    where = "clean"
    if op:
        text, where = plant_fea(text, op[1], value)
        if text is None:
            return None, None, None
    src = os.path.join(sb.inp, "features.fea")
    with open(src, "w", encoding="utf-8") as f:
        f.write(text)
    # include() targets of corpus files live next to them: copy siblings so includes resolve
    d = os.path.dirname(corpus.path(h["input"]))
    for fn in os.listdir(d):
        if fn.startswith("include") or fn.endswith(".fea") and os.path.getsize(os.path.join(d, fn)) < 4000:
            try:
                shutil.copy(os.path.join(d, fn), os.path.join(sb.inp, fn)) if not os.path.exists(os.path.join(sb.inp, fn)) else None
            except OSError:
                pass
    fb = _fea_font(ctx)

    def job():
        import io
        from fontTools.ttLib import TTFont
        from fontTools.feaLib.builder import addOpenTypeFeatures

        font = TTFont(io.BytesIO(fb), recalcTimestamp=False)
        addOpenTypeFeatures(font, src)
        font.save(os.path.join(sb.out, "font.ttf"))

    return job, [sb.out], where


def job_designspace(ctx, h, sb, op, value, entity):
    rel = h["input"]
    with open(corpus.path(rel), "rb") as f:
        data = f.read()
    where = "clean"
    if op and op[0] == "site":
        data, where = plant_xml(data, op[1], value, want_entity=entity, secret=sb.secret)
        if data is None:
            return None, None, None
    elif op and op[0] == "vf":
        esc = value.replace("&", "&amp;").replace("<", "&lt;").replace('"', "&quot;")
        attrs = ""
        if op[1] in ("name", "both"):
            attrs += ' name="%s"' % (esc if not entity else "&xxe;")
        else:
            attrs += ' name="VF"'
        if op[1] in ("filename", "both"):
            attrs += ' filename="%s"' % (esc if not entity else "&xxe;")
        subsets = "<axis-subsets><axis-subset name=\"weight\"/><axis-subset name=\"contrast\"/></axis-subsets>"
        first = ""
        if op[1] == "twin":
            # two variable fonts whose file names share their last component: the first harmless, the
            # second carrying the hostile path (a collision is where a builder is tempted to keep more of it)
            base = value.replace("\\", "/").rstrip("/").split("/")[-1] or "X.ttf"
            base = base.replace("&", "&amp;").replace("<", "&lt;").replace('"', "&quot;")
            first = '<variable-font name="VF1" filename="%s">%s</variable-font>' % (base, subsets)
            attrs = ' name="VF2" filename="%s"' % (esc if not entity else "&xxe;")
        vf = ("<variable-fonts>%s<variable-font%s>%s</variable-font></variable-fonts>" % (first, attrs, subsets)).encode("utf-8")
        data = re.sub(rb'<designspace format="[^"]*"', b'<designspace format="5.0"', data, count=1).replace(b"</designspace>", vf + b"</designspace>")
        assert b"variable-fonts" in data and b'format="5.0"' in data
        if entity:
            data = data.replace(b"?>", b"?>\n" + (XXE_DOCTYPE % (sb.secret, "B" * 16)).encode(), 1)
        where = "variable-font/@%s" % op[1]
    src = os.path.join(sb.inp, "Doc.designspace")
    with open(src, "wb") as f:
        f.write(data)
    buildable = rel == DS_BUILD
    if buildable:
        md = os.path.join(sb.inp, "master_ttf_interpolatable")
        os.makedirs(md, exist_ok=True)
        for fn, b in _masters(ctx).items():
            with open(os.path.join(md, fn), "wb") as f:
                f.write(b)
    use_outdir = h.get("outdir", True)

    def job():
        from fontTools.designspaceLib import DesignSpaceDocument

        doc = DesignSpaceDocument.fromfile(src)
        doc.write(os.path.join(sb.out, "rewritten.designspace"))
        if buildable:
            from fontTools import varLib

            args = [src, "-q", "--master-finder", os.path.join(sb.inp, "master_ttf_interpolatable", "{stem}.ttf")]
            if use_outdir:
                args += ["--output-dir", sb.out]
            varLib.main(args)

    allowed = [sb.out] if use_outdir or not buildable else [sb.out, sb.inp]
    return job, allowed, where


def job_ufo(ctx, h, sb, op, value, entity, mode):
    src = corpus.path(h["input"])
    root = sb.inp if mode == "rewrite" else sb.out
    dst = os.path.join(root, "Font.ufo")
    _copytree(src, dst)
    where = "clean"
    if op:
        files = []
        for dp, dn, fns in os.walk(dst):
            for fn in sorted(fns):
                if fn.endswith((".plist", ".glif")):
                    files.append(os.path.join(dp, fn))
        files.sort()
        if not files:
            return None, None, None
        r = prng.sub("ufofile", op[1])
        # contents.plist / layercontents.plist are where names become paths: bias towards them
        pri = [f for f in files if os.path.basename(f) in ("contents.plist", "layercontents.plist")]
        target = r.choice(pri) if pri and r.random() < 0.4 else r.choice(files)
        with open(target, "rb") as f:
            data = f.read()
        new, w = plant_xml(data, op[1], value, want_entity=entity, secret=sb.secret)
        if new is None:
            return None, None, None
        with open(target, "wb") as f:
            f.write(new)
        where = "%s:%s" % (os.path.relpath(target, dst), w)
    outufo = os.path.join(sb.out, "Out.ufo")

    def job_rewrite():
        from fontTools.ufoLib import UFOReader, UFOWriter
        from fontTools.ufoLib.glifLib import Glyph

        class G:
            pass

        rd = UFOReader(dst, validate=True)
        wr = UFOWriter(outufo, validate=True)

        class Info:
            pass

        info = Info()
        rd.readInfo(info)
        wr.writeInfo(info)
        wr.writeKerning(rd.readKerning())
        wr.writeGroups(rd.readGroups())
        wr.writeLib(rd.readLib())
        wr.writeFeatures(rd.readFeatures())
        for layer in rd.getLayerNames():
            gs = rd.getGlyphSet(layer)
            ws = wr.getGlyphSet(layer, defaultLayer=(layer == rd.getDefaultLayerName()))
            for name in sorted(gs.keys()):
                g = G()
                from fontTools.pens.recordingPen import RecordingPointPen

                pen = RecordingPointPen()
                gs.readGlyph(name, g, pen)
                ws.writeGlyph(name, g, pen.replay)
            ws.writeContents()
        wr.writeLayerContents()
        for p in rd.getDataDirectoryListing():
            wr.writeData(p, rd.readData(p))
        wr.close()

    def job_inplace():
        from fontTools.ufoLib import UFOWriter

        class G:
            width = 500

        wr = UFOWriter(dst, validate=False)
        for layer in wr.layerContents:
            try:
                ws = wr.getGlyphSet(layer, defaultLayer=None)
            except Exception:
                continue
            for name in sorted(ws.keys())[:4]:
                ws.writeGlyph(name, G())
            ws.writeGlyph("verifNew", G())
            ws.writeContents()
        wr.writeLayerContents()
        wr.close()

    if mode == "rewrite":
        return job_rewrite, [outufo], where
    return job_inplace, [dst], where


def simplify(ctx, h):
    import copy

    if h.get("then") not in (None, "save"):
        c = copy.deepcopy(h)
        c["then"] = "save"
        yield c
    if h.get("wf") == "designspace" and not h.get("outdir", True):
        c = copy.deepcopy(h)
        c["outdir"] = True
        yield c
