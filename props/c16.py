"""C16 — output is deterministic and saving does not disturb the font.

Simulated system: a TTFont with its SFNTReader over a simulator-owned source
(bytes stream / scratch path), the clock seam, the environment, and the
destination streams. A run is a seeded history of OBSERVE ops (must be
invisible) and EDIT ops (deterministic), checked against a *fresh* replica that
replays the edits only (DESIGN 3.1).
"""
import copy
import io
import logging
import os
import shutil
import tempfile

from sim import corpus, prng, world
from sim.clock import SimClock
from sim.stream import SimReadStream, SimWriteStream, InjectedIOError

ID = "C16"
LEVEL = "exploration"
RUN_TIMEOUT_S = 240
RULE = (
    "each evaluation is one seeded history (font from the gen-2 corpus, knobs lazy/stream/clock/env, <=12 ops of OBSERVE "
    "and EDIT kind, saves at seeded points) executed on the real TTFont and compared byte-for-byte with a fresh "
    "lazy=False replica that replays only the edits and the same loaded-table sets; non-trivial = the history contains at "
    "least one EDIT or one OBSERVE that loads/compiles/dumps, distinct = distinct history digest"
)
STATES_MEASURE = "distinct (font, lazy, loaded-tag set at each checked save, edit-prefix digest)"
COMPONENTS_REAL = ["fontTools (all of /repo/Lib)", "CPython", "zlib", "brotli", "expat", "OS file system for scratch paths"]
COMPONENTS_STUB = ["clock (SimClock at timeTools.time)", "environment (TZ, LANG, SOURCE_DATE_EPOCH, cwd)", "source and destination streams (SimReadStream/SimWriteStream)", "failing table.compile proxies", "PYTHONHASHSEED chosen per child interpreter"]
ASSUMPTIONS = [
    "inputs are gen-2 recompiles of corpus fonts (decode->encode identity), computed on the same tree in the same run",
    "the loaded-table set at each edit is a legitimate input and is held equal in the reference replica",
    "optional native dependencies present in /venv are used as installed; their presence is not varied here",
]
EXPECTED_PROBES = ["ttc.replica_compared", "ttc.untouched_member_checked", "xml.before_after_save_compared", "xml.dump_vs_reference_compared", "hashsweep.runs_compared", "order.pairs", "pipe.ok", "pipe.build", "pipe.merge", "pipe.instance", "pipe.fea", "pipe.feagen", "pipe.featvars", "pipe.cffconv", "pipe.ttxm", "pipe.subset", "pipe.ttx", "save.checked", "op.savexml", "op.failsave.compile", "op.failsave.dest", "lazy.True", "lazy.None", "lazy.False", "edit.reorder", "edit.subset", "edit.scale", "edit.instantiate"]

TIERS = {
    "quick": {"budget_s": 900, "determinism_sample": 40, "n": {"hist": 2700, "hist_fail": 1000, "hist_ensure": 700, "second_save": 900, "clock": 400, "ttc": 300, "pipe": 500, "order": 40, "hashsweep": 16}, "minimise_s": 60, "max_minimise": 3},
    "thorough": {"budget_s": 5400, "determinism_sample": 200, "n": {"hist": 16000, "hist_fail": 5000, "hist_ensure": 4000, "second_save": 1400, "clock": 1500, "ttc": 2500, "pipe": 6000, "order": 500, "hashsweep": 320}, "minimise_s": 180, "max_minimise": 6},
}

OBSERVE_OPS = ["touch", "contains", "keys", "glyphorder", "glyphset", "bestcmap", "tabledata", "save", "savexml", "deepcopy", "revmap", "ensure_table"]
EDIT_OPS = ["name", "rev", "os2", "os2stale", "uvs", "hmtx", "vmtx", "headflags", "cmap", "glyfshift", "glyfscale", "compbase", "compnew", "cffshift", "flavordata", "deltable", "opaque", "reorder", "scale", "subset", "instantiate", "cffwidth", "gposvalue"]
BIG_EDITS = ("reorder", "scale", "subset", "instantiate")


# ---------------------------------------------------------------------------
# preparation


def prepare(ctx):
    keys = corpus.all_gen2_keys()
    vals = ctx.pmap(corpus.compute_gen2, keys, timeout_s=300)
    ok = 0
    okbin = 0
    reasons = {}
    for k, v in zip(keys, vals):
        corpus.put_gen2(k, v)
        if isinstance(v, bytes):
            ok += 1
            okbin += k.startswith("bin:")
        else:
            reasons[v] = reasons.get(v, 0) + 1
    corpus.publish_tag_index()
    ctx.world["eligible"] = ok
    ctx.world["bins"] = len(corpus.binaries())
    ctx.world["okbin"] = okbin
    return {"corpus_keys": len(keys), "eligible_gen2": ok, "eligible_binaries": okbin, "binaries": len(corpus.binaries()), "ineligible_reasons": reasons}


def prepare_for(ctx, histories, keys=None):
    return None  # gen-2 inputs are computed lazily per key


def vacuity(ctx, agg, per_batch, probes, faults):
    if ctx.world.get("bins") and ctx.world["okbin"] < 0.8 * ctx.world["bins"]:
        return "only %d of %d corpus binaries are recompile fixed points" % (ctx.world["okbin"], ctx.world["bins"])
    return None


def batches(ctx):
    n = ctx.opts["cfg"]["n"]
    return [
        {"name": "hist", "n": n["hist"], "fault_free": True},
        {"name": "hist_ensure", "n": n["hist_ensure"], "fault_free": True},
        {"name": "hist_fail", "n": n["hist_fail"], "fault_free": False},
        {"name": "second_save", "n": n["second_save"], "fault_free": True},
        {"name": "clock", "n": n["clock"], "fault_free": True},
        {"name": "ttc", "n": n.get("ttc", 0), "fault_free": True},
        {"name": "pipe", "n": n.get("pipe", 0), "fault_free": True},
        {"name": "order", "n": n.get("order", 0), "fault_free": True, "front": 0.6},
        {"name": "hashsweep", "n": n.get("hashsweep", 0), "fault_free": True, "front": 0.6},
    ]


# ---------------------------------------------------------------------------
# generation: pure function of (seed, batch, idx)


_HAS_FVAR = {}


def _has_fvar(k):
    if k not in _HAS_FVAR:
        from fontTools.ttLib import TTFont

        g = corpus.gen2(k)
        _HAS_FVAR[k] = g is not None and "fvar" in TTFont(io.BytesIO(g), lazy=True)
    return _HAS_FVAR[k]


def _pick_font(r, info=None):
    keys = corpus.all_gen2_keys()
    if r.random() < 0.2:
        # bias a fifth of the runs towards variable fonts (instancing as an EDIT)
        for _ in range(60):
            k = r.choice(keys)
            if _has_fvar(k):
                return k
    if r.random() < 0.3:
        # a table kind first, a font that has it second: rare kinds (COLR, EBLC, Silf, AAT, SVG ...) get
        # as many histories as the ubiquitous ones
        bt = corpus.keys_by_tag()
        if bt:
            tag = r.choice(sorted(bt))
            if info is not None:
                info["bytag"] = tag
            return r.choice(bt[tag])
    # binaries and TTX-derived fonts with equal weight per file
    for _ in range(40):
        k = r.choice(keys)
        if corpus.gen2(k) is not None:
            return k
    return None


def _gen_save(r, allow_flavor=True):
    fl = None
    if allow_flavor and r.random() < 0.15:
        fl = r.choice(["woff", "woff2"])
    return {"flavor": fl, "reorder": r.choice([True, True, False, None]), "dest": r.choice(["bytesio", "unseekable", "path"])}


def _gen_xml(r):
    o = {}
    if r.random() < 0.3:
        o["splitTables"] = True
    if r.random() < 0.2:
        o["disassembleInstructions"] = False
    if r.random() < 0.2:
        o["bitmapGlyphDataFormat"] = r.choice(["raw", "row", "bitwise", "extfile"])
    if r.random() < 0.3:
        o["newlinestr"] = r.choice(["\n", "\r\n", "\r"])
    if r.random() < 0.3:
        o["ntables"] = r.randint(1, 4)
        o["tk"] = r.randrange(1 << 16)
    return o


def _gen_op(r, batch, font_has_fvar):
    k = r.random()
    p_edit = 0.35
    if k < p_edit:
        name = r.choice(EDIT_OPS if font_has_fvar else [e for e in EDIT_OPS if e != "instantiate"])
        a = {"k": r.randrange(1 << 16)}
        if name in BIG_EDITS:
            a["seed"] = r.randrange(1 << 30)
        if name == "scale":
            a["upem"] = r.choice([500, 1000, 1024, 2048, 1536, 2000])
        if name == "instantiate":
            a["inplace"] = r.random() < 0.5
        if name == "name":
            a["s"] = r.choice(["X", "Verif Sans", "é中", "a" * 40])
            a["id"] = r.choice([1, 4, 5, 256, 300])
        if name == "opaque":
            a["tag"] = r.choice(["ZZZZ", "Xtra", "TEST"])
            a["n"] = r.choice([0, 1, 3, 4, 17])
        return [name, a]
    name = r.choice(OBSERVE_OPS + ["touch", "touch", "save", "savexml"])
    a = {"k": r.randrange(1 << 16)}
    if name == "save":
        a.update(_gen_save(r))
    if name == "savexml":
        a.update(_gen_xml(r))
    if batch == "hist_fail" and r.random() < 0.35:
        name = "failsave"
        a = {"k": r.randrange(1 << 16), "mode": r.choice(["compile", "compile", "dest", "dest_partial"]), "exc": r.choice(["RuntimeError", "MemoryError", "OSError"])}
    return [name, a]


def generate(ctx, batch, idx):
    r = ctx.rng(batch, idx)
    if batch in ("pipe", "pipeb"):
        from props import c16_pipes

        return c16_pipes.generate(ctx, r, idx, build_only=(batch == "pipeb"))
    if batch == "pipet":
        # whole-font transformations walked over table kinds: run idx works on a font that has the
        # (idx mod number-of-kinds)-th table tag of the corpus (only reached through hashsweep / order keys)
        from props import c16_pipes

        bt = corpus.keys_by_tag()
        tags = sorted(bt)
        if not tags:
            return None
        k = r.choice(bt[tags[idx % len(tags)]])
        kind = r.choice(["subset", "subset", "subset", "reorder", "scale", "recompile", "ttx"])
        h = {"kind": "pipe", "pipe": kind, "seed": r.randrange(1 << 30), "ops": [], "input": k[4:] if k.startswith("bin:") else k, "tag": tags[idx % len(tags)]}
        if kind == "subset":
            h["recalc_bounds"] = r.random() < 0.5
            h["keep"] = r.choice([0.3, 0.6, 0.6, 0.9])
        return h
    info = {}
    key = _pick_font(r, info)
    if key is None:
        return None
    if batch in ("hist", "hist_fail", "hist_ensure"):
        from fontTools.ttLib import TTFont

        has_fvar = "fvar" in TTFont(io.BytesIO(corpus.gen2(key)), lazy=True)
        knobs = {
            "lazy": r.choice([None, True, False]),
            "source": r.choice(["bytesio", "simstream", "short", "path"]),
            "recalcBBoxes": r.random() < 0.8,
            "pin": r.choice(["norecalc", "sde"]),
            "sde": r.randrange(0, 4_000_000_000),
            "clock_start": r.randrange(0, 4_000_000_000),
            "tz": r.choice([None, "UTC", "JST-9", "EST5EDT", "Asia/Tokyo", "America/Los_Angeles"]),
            "lang": r.choice([None, "C", "tr_TR.UTF-8", "de_DE.ISO-8859-1"]),
            "pre_ensure": batch == "hist_ensure",
            "xmlcheck": r.random() < 0.5,
        }
        n = r.randint(1, 12)
        ops = [_gen_op(r, batch, has_fvar) for _ in range(n)]
        # an outline scaled down (fractional coordinates in memory, as after any caller-side transform or
        # interpolation) is usually scaled back up later in the history: whatever happened in between must not
        # have touched the fractions
        for j_ in range(len(ops) - 1, -1, -1):
            if ops[j_][0] == "glyfscale" and r.random() < 0.75:
                ops.insert(r.randint(j_ + 1, len(ops)), ["glyfunscale", dict(ops[j_][1])])
        # at most two whole-font transformations per history (cost)
        seen = 0
        for op in ops:
            if op[0] in BIG_EDITS:
                seen += 1
                if seen > 2:
                    op[0] = "rev"
        if r.random() < 0.06:
            # a WOFF session: a metadata object attached once, every intermediate save is a WOFF, and the
            # font revision changes between saves (the container version follows it unless given)
            ops.insert(0, ["flavordata", {"k": 0, "versioned": r.random() < 0.3, "meta": r.random() < 0.4}])
            first_save = None
            for j_, op in enumerate(ops):
                if op[0] == "save":
                    op[1]["flavor"] = "woff"
                    if first_save is None:
                        first_save = j_
            if first_save is None:
                ops.insert(1, ["save", dict(_gen_save(r), flavor="woff")])
                first_save = 1
            ops.insert(first_save + 1, ["rev", {"k": r.randrange(1 << 16)}])
            ops.insert(first_save + 2, ["save", dict(_gen_save(r), flavor="woff")])
        if info.get("bytag"):
            # a font chosen for a rare table kind: most of these histories contain a whole-font
            # transformation (where table-specific code runs) and compare the dump across the save
            if seen == 0 and r.random() < 0.7:
                name = r.choice([b for b in BIG_EDITS if b != "instantiate" or has_fvar])
                a = {"k": r.randrange(1 << 16), "seed": r.randrange(1 << 30)}
                if name == "scale":
                    a["upem"] = r.choice([500, 1000, 1024, 2048])
                if name == "instantiate":
                    a["inplace"] = r.random() < 0.5
                ops.insert(r.randrange(len(ops) + 1), [name, a])
            if r.random() < 0.8:
                knobs["xmlcheck"] = True
        ops.append(["save", dict(_gen_save(r, allow_flavor=False), final=True)])
        return {"kind": "hist", "batch": batch, "font": key, "knobs": knobs, "ops": ops, "n_checked": r.choice([1, 2, 3])}
    if batch == "second_save":
        return {
            "kind": "second_save",
            "font": key,
            "original": key.startswith("bin:") and r.random() < 0.5,
            "lazy": r.choice([None, True, False]),
            "ensure": r.random() < 0.6,
            "flavor": r.choice([None, None, "woff", "woff2"]),
            "reorder": r.choice([True, False, None]),
            "touch": [r.randrange(1 << 16) for _ in range(r.randint(0, 6))],
            "xml": r.random() < 0.5,
            "ops": [],
        }
    if batch == "pipe":
        from props import c16_pipes

        return c16_pipes.generate(ctx, r, idx)
    if batch == "hashsweep":
        # a chunk of runs executed in two fresh interpreters under different PYTHONHASHSEED values
        keys = []
        for _ in range(40):
            b = r.choice(["pipeb", "pipeb", "pipet", "pipet", "pipe", "hist", "hist_ensure"])
            keys.append([b, r.randrange(4000)])
        return {"kind": "hashsweep", "ops": keys, "seeds": [r.randrange(1, 1 << 31), r.randrange(1, 1 << 31)], "font": None}
    if batch == "order":
        # replicas of one run in fresh interpreters: alone, alone under another PYTHONHASHSEED,
        # and after a prefix of other runs (process-history independence)
        pre = []
        for _ in range(r.randint(6, 30)):
            b = r.choice(["hist", "hist_fail", "hist_ensure", "second_save", "clock", "pipe", "pipe", "pipe"])
            pre.append([b, r.randrange(2000)])
        tb = r.choice(["hist", "second_save", "hist_ensure", "pipe", "pipe", "pipe"])
        ti = r.randrange(2000)
        if r.random() < 0.5:
            # state leaking from one run to the next mostly stays inside one module: the target is a run
            # of a uniformly chosen pipeline kind and most of the prefix is made of runs of that same kind
            # (found by generating candidates, which is pure)
            from props import c16_pipes

            want = r.choice(sorted(set(c16_pipes.KINDS)))
            same = []
            for _ in range(400):
                ci = r.randrange(2000)
                if c16_pipes.generate(ctx, ctx.rng("pipe", ci), ci).get("pipe") == want:
                    same.append(["pipe", ci])
                    if len(same) >= 13:
                        break
            if len(same) >= 2:
                tb, ti = same.pop()
                pre = pre[: r.randint(0, 4)] + same
                r.shuffle(pre)
        return {"kind": "order", "target": [tb, ti], "ops": pre, "font": key, "hashseed": r.randrange(1, 1 << 31)}
    if batch == "ttc":
        # a collection of 2-3 canonical members: touches, small edits and saves on the lazily opened
        # collection against a fresh eager collection that replays the edits only
        ops = []
        for _ in range(r.randint(1, 8)):
            q = r.random()
            m = r.randrange(3)
            if q < 0.45:
                ops.append(["touch", {"m": m, "k": r.randrange(1 << 16)}])
            elif q < 0.8:
                ops.append([r.choice(["name", "rev", "os2", "hmtx", "cmap", "glyfshift", "headflags", "vmtx"]), {"m": m, "k": r.randrange(1 << 16), "s": "TTC %d" % r.randrange(100), "id": r.choice([1, 4, 256])}])
            else:
                ops.append(["save", {"share": r.random() < 0.7}])
        ops.append(["save", {"share": r.random() < 0.7, "final": True}])
        open_share = r.random() < 0.3
        if open_share:
            # members opened with shared table OBJECTS (TTCollection(shareTables=True): "use only if you know
            # what you are doing"): an edit then reaches every member holding the object and derived fields
            # of the others go stale by design, so these histories only observe (touch, save)
            ops = [op if op[0] in ("touch", "save") else ["touch", {"m": op[1]["m"], "k": op[1]["k"]}] for op in ops]
        return {"kind": "ttc", "font": key, "members": [r.randrange(1 << 16) for _ in range(r.randint(1, 2))], "dup": r.random() < 0.4, "lazy": r.choice([None, True, False]), "open_share": open_share, "ops": ops}
    if batch == "clock":
        return {
            "kind": "clock",
            "font": key,
            "lazy": r.choice([None, True, False]),
            "touch": [r.randrange(1 << 16) for _ in range(r.randint(0, 4))],
            "mode": r.choice(["pinned_norecalc", "pinned_sde", "unpinned", "unpinned", "ttc", "ttc"]),
            "sde": r.randrange(0, 4_000_000_000),
            "clock_seed": r.randrange(1 << 30),
            "share": r.random() < 0.7,
            "tz": r.choice([None, "UTC", "Pacific/Kiritimati"]),
            "members": [r.randrange(1 << 16) for _ in range(r.randint(2, 3))],
            "ops": [],
        }
    raise ValueError(batch)


# ---------------------------------------------------------------------------
# execution helpers


class Scratch:
    def __init__(self):
        self.dir = None

    def path(self, name):
        if self.dir is None:
            self.dir = tempfile.mkdtemp(prefix="verif-c16-")
        return os.path.join(self.dir, name)

    def close(self):
        if self.dir is not None:
            shutil.rmtree(self.dir, ignore_errors=True)
            self.dir = None


def loaded_set(font):
    return sorted(t for t in font.tables.keys() if t != "GlyphOrder")


def _open(src, knobs, scratch, rng, lazy):
    from fontTools.ttLib import TTFont

    kw = dict(lazy=lazy, recalcBBoxes=knobs.get("recalcBBoxes", True), recalcTimestamp=knobs.get("pin") == "sde")
    kind = knobs.get("source", "bytesio")
    if kind == "path" or (lazy and kind in ("short", "simstream")):
        # lazy=True keeps the file object: fontTools supports BytesIO and named files there
        # (a nameless custom stream cannot be deep-copied or pickled by SFNTReader)
        p = scratch.path("src-%d.bin" % rng.randrange(1 << 30))
        with open(p, "wb") as f:
            f.write(src)
        return TTFont(p, **kw)
    if kind == "simstream":
        return TTFont(SimReadStream(src, rng=rng, short=False, seekable=True), **kw)
    if kind == "short":
        # short reads and an unseekable stream are only legal when the library slurps (lazy falsy)
        return TTFont(SimReadStream(src, rng=rng, short=True, seekable=rng.random() < 0.5), **kw)
    return TTFont(io.BytesIO(src), **kw)


def _tags(font):
    return [t for t in font.keys() if t != "GlyphOrder"]


def _sel(lst, k):
    return lst[k % len(lst)] if lst else None


def _do_save(font, a, scratch, counter):
    """Returns bytes written."""
    old_flavor = font.flavor
    if a.get("flavor") is not None:
        font.flavor = a["flavor"]
    try:
        dest = a.get("dest", "bytesio")
        if dest == "path":
            counter[0] += 1
            p = scratch.path("out-%d.bin" % counter[0])
            font.save(p, reorderTables=a.get("reorder", True))
            with open(p, "rb") as f:
                return f.read()
        if dest == "unseekable":
            s = SimWriteStream(seekable=False)
            font.save(s, reorderTables=a.get("reorder", True))
            return s.getvalue()
        s = io.BytesIO()
        font.save(s, reorderTables=a.get("reorder", True))
        return s.getvalue()
    finally:
        font.flavor = old_flavor


def _do_savexml(font, a, scratch, counter):
    kw = {}
    for k in ("splitTables", "disassembleInstructions", "bitmapGlyphDataFormat", "newlinestr"):
        if k in a:
            kw[k] = a[k]
    if "ntables" in a:
        tags = _tags(font)
        r = prng.sub("xmltables", a["tk"])
        kw["tables"] = sorted(r.sample(tags, min(len(tags), a["ntables"])))
    if kw.get("splitTables") or kw.get("bitmapGlyphDataFormat") == "extfile":
        counter[0] += 1
        d = scratch.path("xml-%d" % counter[0])
        os.makedirs(d, exist_ok=True)
        font.saveXML(os.path.join(d, "f.ttx"), **kw)
        out = []
        for fn in sorted(os.listdir(d)):
            fp = os.path.join(d, fn)
            if os.path.isfile(fp):
                with open(fp, "rb") as f:
                    out.append((fn, f.read()))
        return out
    s = io.StringIO()
    font.saveXML(s, **kw)
    return s.getvalue()


class Raiser:
    """Makes one table object's compile raise, via its class (no instance attribute is planted)."""

    def __init__(self, table, exc):
        self.table = table
        self.exc = exc
        self.cls = type(table)
        self.orig = self.cls.__dict__.get("compile")
        self.fired = 0

    def __enter__(self):
        target = self.table
        inherited = getattr(self.cls, "compile")
        me = self

        def compile(self_, ttFont, *a, **k):
            if self_ is target:
                me.fired += 1
                raise me.exc("injected compile failure")
            return inherited(self_, ttFont, *a, **k)

        self.cls.compile = compile
        return self

    def __exit__(self, *a):
        if self.orig is None:
            del self.cls.compile
        else:
            self.cls.compile = self.orig


EXC = {"RuntimeError": RuntimeError, "MemoryError": MemoryError, "OSError": OSError}


def apply_edit(font, name, a):
    """Deterministic edits through the public API. Returns the (possibly new) font."""
    k = a.get("k", 0)
    if name == "name":
        if "name" in font:
            font["name"].setName(a.get("s", "X"), a.get("id", 1), 3, 1, 0x409)
        return font
    if name == "rev":
        if "head" in font:
            h = font["head"]
            h.fontRevision = round(h.fontRevision + 1.0, 3)
        return font
    if name == "os2":
        if "OS/2" in font:
            o = font["OS/2"]
            o.usWeightClass = 100 + (k % 9) * 100
            o.sTypoLineGap = (k % 200)
        return font
    if name == "hmtx":
        if "hmtx" in font:
            go = font.getGlyphOrder()
            g = _sel(go, k)
            adv, lsb = font["hmtx"][g]
            font["hmtx"][g] = ((adv + 1 + k % 7) % 60000, lsb)
        return font
    if name == "vmtx":
        # (every third pick is the last glyph: changes the number of long metrics)
        if "vmtx" in font:
            go = font.getGlyphOrder()
            g = go[-1] if k % 3 == 0 else _sel(go, k)
            adv, tsb = font["vmtx"][g]
            font["vmtx"][g] = ((adv + 1 + k % 7) % 60000, tsb)
        elif "hmtx" in font:
            go = font.getGlyphOrder()
            adv, lsb = font["hmtx"][go[-1]]
            font["hmtx"][go[-1]] = ((adv + 1 + k % 7) % 60000, lsb)
        return font
    if name == "headflags":
        # bit 11: "font data is lossless as a result of an optimizing transformation" (what a trip
        # through WOFF2 leaves behind); bits 1, 3: common hinting-related flags
        if "head" in font:
            font["head"].flags ^= (1 << 11, 1 << 11, 1 << 3, 1 << 1)[k % 4]
        return font
    if name == "cmap":
        if "cmap" in font:
            go = font.getGlyphOrder()
            # (never .notdef: a mapping to glyph 0 is "no mapping" and legitimately not stored)
            g = _sel(go[1:] or go, k)
            cp = 0xE000 + (k % 0x1000)
            for st in font["cmap"].tables:
                if st.isUnicode() and st.format in (4, 12):
                    st.cmap[cp] = g
        return font
    if name == "glyfshift":
        if "glyf" in font:
            go = font.getGlyphOrder()
            for j in range(len(go)):
                g = go[(k + j) % len(go)]
                gl = font["glyf"][g]
                if gl.numberOfContours > 0:
                    gl.coordinates.translate((1 + k % 5, -(k % 3)))
                    break
        return font
    if name == "glyfflat":
        # a simple glyph squashed onto one horizontal line (a dash drawn as a zero-height outline: legal, and
        # still a glyph with an outline), carrying the font's extreme top side bearing when there are
        # vertical metrics: the vertical header's extents must count it
        if "glyf" in font:
            go = font.getGlyphOrder()
            for j in range(len(go)):
                g = go[(k + j) % len(go)]
                gl = font["glyf"][g]
                if gl.numberOfContours > 0 and len(gl.coordinates) > 1:
                    y0 = gl.coordinates[0][1]
                    for i_ in range(len(gl.coordinates)):
                        gl.coordinates[i_] = (gl.coordinates[i_][0], y0)
                    if "vmtx" not in font and "vhea" not in font and "hhea" in font and "hmtx" in font:
                        # vertical metrics added by the editor (no TrueType-flavoured corpus font has them)
                        from fontTools.ttLib import newTable

                        vh = font["vhea"] = newTable("vhea")
                        vh.tableVersion = 0x00011000
                        vh.ascent, vh.descent, vh.lineGap = 500, -500, 0
                        vh.advanceHeightMax = vh.minTopSideBearing = vh.minBottomSideBearing = vh.yMaxExtent = 0
                        vh.caretSlopeRise, vh.caretSlopeRun, vh.caretOffset = 0, 1, 0
                        vh.reserved1 = vh.reserved2 = vh.reserved3 = vh.reserved4 = 0
                        vh.metricDataFormat = 0
                        vh.numberOfVMetrics = len(go)
                        vm = font["vmtx"] = newTable("vmtx")
                        vm.metrics = {n_: (1000, 100 + i_ % 7) for i_, n_ in enumerate(go)}
                    if "vmtx" in font:
                        lo = min(t for _, t in font["vmtx"].metrics.values())
                        adv, _ = font["vmtx"][g]
                        font["vmtx"][g] = (adv, max(-32000, lo - 10 - k % 40))
                    break
        return font
    if name in ("glyfscale", "glyfunscale"):
        if "glyf" in font:
            go = font.getGlyphOrder()
            f = 0.5 if name == "glyfscale" else 2.0
            n_ = 0
            for j in range(len(go)):
                gl = font["glyf"][go[(k + j) % len(go)]]
                if gl.numberOfContours > 0:
                    gl.coordinates.scale((f, f))
                    n_ += 1
                    if n_ >= 1 + k % 3:
                        break
        return font
    if name == "compnew":
        # a glyph is rebuilt as a composite of a simple glyph that comes LATER in the glyph order (an accented
        # letter built from a mark at the end of the font), and that component's outline is moved afterwards:
        # every box that depends on it must follow, whatever order the glyphs are compiled in
        if "glyf" in font:
            from fontTools.ttLib.tables._g_l_y_f import Glyph, GlyphComponent

            go = font.getGlyphOrder()
            glyf = font["glyf"]
            for j in range(len(go) - 2):
                bi = 2 + (k + j) % (len(go) - 2)
                base = glyf[go[bi]]
                if base.numberOfContours > 0:
                    ai = 1 + (k // 7) % (bi - 1)
                    g = Glyph()
                    g.numberOfContours = -1
                    c = GlyphComponent()
                    c.glyphName = go[bi]
                    c.x, c.y = (k % 90) - 30, (k % 50) - 10
                    c.flags = 0x4
                    g.components = [c]
                    # (the rebuilt glyph has another point count: its old variation data goes; gvar is decoded
                    # first, against the outlines its data was made for)
                    gv = font["gvar"] if "gvar" in font else None
                    glyf[go[ai]] = g
                    if gv is not None:
                        gv.variations[go[ai]] = []
                    base.coordinates.translate((41 + k % 60, 13 + k % 9))
                    break
        return font
    if name == "compbase":
        # moves the outline of a simple glyph that composites use as a component; the glyph is found by the
        # independent glyf reader in the file the font was opened from, so that no composite is expanded by
        # the search (their bounding boxes must follow anyway)
        if "glyf" in font and font.reader is not None and not font.isLoaded("glyf"):
            from oracles import glyf as oglyf

            try:
                tabs = {t: font.reader[t] for t in ("head", "maxp", "loca", "glyf")}
                glyphs = oglyf.parse_glyphs(tabs)[3]
            except Exception:
                glyphs = []
            cands = sorted({c["gid"] for g in glyphs if g and g["nc"] < 0 for c in g["comps"] if c["gid"] < len(glyphs) and glyphs[c["gid"]] and glyphs[c["gid"]]["nc"] > 0})
            if cands:
                b = _sel(cands, k)
                bname = font.getGlyphName(b)
                users = [i for i, g in enumerate(glyphs) if g and g["nc"] < 0 and i > b and any(c["gid"] == b for c in g["comps"])]
                if users and b > 0 and k % 2 == 0:
                    # the composite changes places with its component first (accented letters ahead of the marks
                    # they are built from): the composite is then compiled before the edited outline is
                    from fontTools.ttLib.reorderGlyphs import reorderGlyphs

                    go = list(font.getGlyphOrder())
                    u = _sel(users, k // 2)
                    go[b], go[u] = go[u], go[b]
                    reorderGlyphs(font, go)
                gl = font["glyf"][bname]
                if gl.numberOfContours > 0:
                    gl.coordinates.translate((37 + k % 50, 11 + k % 7))
        return font
    if name == "deltable":
        cand = [t for t in _tags(font) if t not in ("head", "maxp", "hhea", "hmtx", "glyf", "loca", "CFF ", "CFF2", "post", "cmap", "name", "OS/2", "fvar", "gvar", "vhea", "vmtx", "Glat", "Gloc", "CBDT", "CBLC", "EBDT", "EBLC", "bdat", "bloc")]
        # (never one half of a data/location pair: the location table is filled in by its data table's compile,
        # so "save; delete the data table; save" legitimately differs from "delete; save" - soak seed 8)
        t = _sel(cand, k)
        if t is not None:
            del font[t]
        return font
    if name == "opaque":
        from fontTools.ttLib import newTable

        t = newTable(a.get("tag", "ZZZZ"))
        t.data = bytes((k + i) % 251 for i in range(a.get("n", 4)))
        font[a.get("tag", "ZZZZ")] = t
        return font
    if name == "cffwidth":
        if "CFF " in font:
            cff = font["CFF "].cff
            td = cff[cff.fontNames[0]]
            cs = td.CharStrings
            g = _sel(sorted(cs.keys()), k)
            c = cs[g]
            c.decompile()
            pd = c.private
            if hasattr(c, "width") and pd is not None:
                c.width = pd.nominalWidthX + 1 + (k % 50)
        return font
    if name == "uvs":
        # Unicode variation sequences appended out of code-point order (a format 14 subtable is added when the
        # font has none): how an editor appends, not how a compiler sorts
        if "cmap" in font:
            from fontTools.ttLib.tables._c_m_a_p import CmapSubtable

            go = font.getGlyphOrder()
            st14 = [t for t in font["cmap"].tables if t.format == 14]
            if st14:
                st = st14[0]
            else:
                st = CmapSubtable.newSubtable(14)
                st.platformID, st.platEncID, st.language = 0, 5, 0
                st.cmap = {}
                st.uvsDict = {}
                font["cmap"].tables.append(st)
                font["cmap"].tables.sort()  # encoding records in their required order
            sel = (0xFE00, 0xFE01, 0xE0100)[k % 3]
            lst = st.uvsDict.setdefault(sel, [])
            have = {u for u, _ in lst}
            for uv in (0x4E10 + k % 16, 0x4E02 + k % 8, 0x3400 + k % 5):
                if uv not in have:
                    lst.append((uv, _sel(go[1:] or go, k + uv)))
                    have.add(uv)
        return font
    if name == "os2stale":
        # values the dump itself announces as "will be recalculated by the compiler": a caller may leave
        # anything there (e.g. an OS/2 table copied from another font)
        if "OS/2" in font:
            font["OS/2"].usFirstCharIndex = 0x21 + k % 7
            font["OS/2"].usLastCharIndex = 0xF000 + k % 255
        return font
    if name == "flavordata":
        # user-supplied container metadata object (WOFF version left open = "follow head.fontRevision",
        # or given), kept on the font across saves
        from fontTools.ttLib.sfnt import WOFFFlavorData

        fd = WOFFFlavorData()
        if a.get("versioned"):
            fd.majorVersion, fd.minorVersion = 1, 7
        if a.get("meta"):
            fd.metaData = b'<?xml version="1.0" encoding="UTF-8"?><metadata version="1.0"><uniqueid id="verif"/></metadata>'
        font.flavorData = fd
        return font
    if name == "cffshift":
        # moves the outline of one CFF glyph by editing its charstring program in place (the first moveto's
        # operands), the way a glyph editor working on the decompiled program does
        if "CFF " in font:
            cff = font["CFF "].cff
            td = cff[cff.fontNames[0]]
            cs = td.CharStrings
            names = sorted(cs.keys())
            for j in range(min(len(names), 40)):
                c = cs[names[(k + j) % len(names)]]
                c.decompile()
                pr = c.program
                for i_, tok in enumerate(pr):
                    if tok in ("rmoveto", "hmoveto", "vmoveto"):
                        if i_ >= 1 and isinstance(pr[i_ - 1], (int, float)):
                            # (every other time by a fractional amount: outlines off the integer grid, whose
                            # boxes are rounded outwards wherever they are stored)
                            pr[i_ - 1] = pr[i_ - 1] + 300 + k % 700 + (0.5 if k % 2 == 0 else 0)
                            return font
                        break
        return font
    if name == "gposvalue":
        if "GPOS" in font and font["GPOS"].table.LookupList:
            for lk in font["GPOS"].table.LookupList.Lookup:
                for st in lk.SubTable:
                    if getattr(st, "LookupType", None) == 9:
                        st = st.ExtSubTable
                    if st.LookupType == 1 and st.Format == 1 and st.Value is not None:
                        st.Value.XAdvance = ((getattr(st.Value, "XAdvance", 0) or 0) + 1 + k % 9)
                        st.ValueFormat |= 4
                        return font
        return font
    if name == "reorder":
        from fontTools.ttLib.reorderGlyphs import reorderGlyphs

        go = font.getGlyphOrder()
        rest = list(go[1:])
        prng.sub("reorder", a["seed"]).shuffle(rest)
        reorderGlyphs(font, [go[0]] + rest)
        return font
    if name == "scale":
        from fontTools.ttLib.scaleUpem import scale_upem

        scale_upem(font, a.get("upem", 1000))
        return font
    if name == "subset":
        from fontTools import subset

        o = subset.Options()
        r = prng.sub("subset", a["seed"])
        o.layout_features = ["*"]
        o.notdef_outline = True
        o.recalc_timestamp = False
        o.name_IDs = ["*"]
        if r.random() < 0.3:
            o.retain_gids = True
        if r.random() < 0.3:
            o.glyph_names = True
        s = subset.Subsetter(o)
        go = font.getGlyphOrder()
        keep = [g for g in go if r.random() < 0.6] or go[:1]
        s.populate(glyphs=keep)
        s.subset(font)
        return font
    if name == "instantiate":
        from fontTools.varLib import instancer

        if "fvar" not in font:
            return font
        r = prng.sub("inst", a["seed"])
        lim = {}
        axes = [(x.axisTag, x.minValue, x.defaultValue, x.maxValue) for x in font["fvar"].axes]
        for tag, lo, df, hi in axes:
            q = r.random()
            if q < 0.35:
                lim[tag] = r.choice([lo, df, hi, (lo + hi) / 2])
            elif q < 0.7:
                lim[tag] = (round(r.uniform(lo, df), 2), round(r.uniform(df, hi), 2))
        if not lim:
            lim = {axes[0][0]: axes[0][2]}
        out = instancer.instantiateVariableFont(font, lim, inplace=a.get("inplace", True))
        return out
    raise ValueError(name)


def _exc_sig(e):
    """What is compared of an exception: its type and message - except for KeyError, whose "message" is
    the key: when several keys are missing, which one a loop over a set meets first is not output (seen:
    subset; subset on MutatorSans raises KeyError('arrowright') or ('arrowup') depending on the hash seed;
    both replicas and both seeds raise KeyError)."""
    if isinstance(e, KeyError):
        return "KeyError"
    return "%s:%s" % (type(e).__name__, str(e)[:80])


def run_observed(src, h, scratch, events, probes, faults):
    """The replica under test. Returns (steps, saves) where steps[i] describes op i and
    saves is a list of (op index, params, bytes or 'exc:..')."""
    knobs = h["knobs"]
    rng = prng.sub("observed", prng.digest(h))
    from fontTools.misc import timeTools

    clock = SimClock(start=knobs.get("clock_start", 1e9), regime="jump", rng=prng.sub("clock", prng.digest(h)))
    timeTools.time = clock
    if knobs.get("pin") == "sde":
        os.environ["SOURCE_DATE_EPOCH"] = str(knobs["sde"])
    if knobs.get("tz"):
        os.environ["TZ"] = knobs["tz"]
    if knobs.get("lang"):
        os.environ["LANG"] = knobs["lang"]
        os.environ["LC_ALL"] = knobs["lang"]
    lazy = knobs.get("lazy")
    probes["lazy.%s" % lazy] = probes.get("lazy.%s" % lazy, 0) + 1
    font = _open(src, knobs, scratch, rng, lazy)
    if knobs.get("pre_ensure"):
        font.ensureDecompiled()
    counter = [0]
    steps = []
    saves = []
    xml_state = {}
    before = set(loaded_set(font))
    steps.append({"op": "open", "loaded": sorted(before)})
    aborted = None
    for i, (name, a) in enumerate(h["ops"]):
        step = {"op": name, "kind": "edit" if name in EDIT_OPS else "observe"}
        try:
            if name in EDIT_OPS:
                font = apply_edit(font, name, a)
                probes["edit." + name] = probes.get("edit." + name, 0) + 1
            else:
                final = name == "save" and a.get("final") and knobs.get("xmlcheck")
                if final:
                    xml_state["tags"] = [t for t in loaded_set(font) if t not in DERIVED_TABLES]
                    xml_state["before"] = _dump_stable(font, xml_state["tags"])
                res = observe(font, name, a, scratch, counter, probes, faults)
                if name == "save":
                    saves.append((i, a, res))
                    step["out"] = prng.bdigest(res)
                if final:
                    xml_state["after"] = _dump_stable(font, xml_state["tags"])
                    xml_state["full"] = _dump_all(font)
        except InjectedIOError:
            raise
        except Exception as e:  # an op the library rejects: must be rejected identically by the reference
            step["exc"] = _exc_sig(e)
            if name in EDIT_OPS:
                aborted = i
                steps.append(step)
                break
            if name == "save":
                saves.append((i, a, "exc:" + _exc_sig(e)))
        now = set(loaded_set(font))
        step["new"] = sorted(now - before)
        step["gone"] = sorted(before - now)
        before = now
        steps.append(step)
    events.append({"observed": steps, "clock_reads": len(clock.__dict__["reads"])})
    run_observed.xml_state = xml_state
    return font, steps, saves, aborted, clock


# tables whose compile recalculates or canonicalises the object in place by design (finding K2):
# derived extents and counts
DERIVED_TABLES = ("head", "hhea", "vhea", "hmtx", "vmtx", "maxp", "OS/2", "post", "glyf", "loca", "CFF ", "CFF2")


def _dump_stable(font, tags):
    """Dump of the given (loaded) tables, none of which holds recalculated data (finding K2's business)."""
    tags = [t for t in tags if t in font]
    if not tags:
        return ""
    s = io.StringIO()
    try:
        font.saveXML(s, tables=tags, writeVersion=False)
    except Exception as e:
        return "exc:" + _exc_sig(e)
    return s.getvalue()


_INDEX_ATTR = None
_EBLC_RANGE = None


def _unordered(xml):
    """Compiling may sort records into their canonical order in place (name records after an edit):
    the before/after comparison is therefore made on the multiset of dump lines with positional index
    attributes removed — content, not order. The firstGlyphIndex/lastGlyphIndex attributes of EBLC/CBLC
    index subtables, and the strike-level startGlyphIndex / endGlyphIndex / index sizes and offsets, are
    recalculated data like the head bbox (the dump itself says so: "The
    firstGlyphIndex and lastGlyphIndex values will be recalculated by the compiler"), stale after a
    subset until the next compile: they are masked, the glyph lists they are derived from are not."""
    global _INDEX_ATTR, _EBLC_RANGE
    if _INDEX_ATTR is None:
        import re

        _INDEX_ATTR = re.compile(r' index="\d+"')
        _EBLC_RANGE = re.compile(r'(<eblc_index_sub_table_\d+ .*?) firstGlyphIndex="\d+" lastGlyphIndex="\d+"|<(indexSubTableArrayOffset|indexTablesSize|numberOfIndexSubTables|startGlyphIndex|endGlyphIndex) value="\d+"/>')
    ordered, names = [], []
    in_name = False
    for ln in xml.splitlines():
        ln = ln.strip()
        if not ln:
            continue
        if ln == "<name>":
            in_name = True
        ln2 = _EBLC_RANGE.sub(lambda m: m.group(1) or "<%s/>" % m.group(2), ln)
        if in_name:
            names.append(_INDEX_ATTR.sub("", ln2))
        else:
            ordered.append(ln2)
        if ln == "</name>":
            in_name = False
    # only the name table's records are compared as a multiset (name.compile sorts them in place, which
    # no later operation can observe); everything else must also keep its order
    return ordered, sorted(names)


def _dump_all(font):
    s = io.StringIO()
    try:
        font.saveXML(s, writeVersion=False)
    except Exception as e:
        return "exc:" + _exc_sig(e)
    return s.getvalue()


def observe(font, name, a, scratch, counter, probes, faults):
    k = a.get("k", 0)
    tags = _tags(font)
    if name == "touch":
        t = _sel(tags, k)
        if t:
            font[t]
        return None
    if name == "ensure_table":
        t = _sel(tags, k)
        if t:
            tb = font[t]
            if hasattr(tb, "ensureDecompiled"):
                tb.ensureDecompiled()
        return None
    if name == "contains":
        t = _sel(tags, k)
        return (t in font) and ("zzzz" not in font)
    if name == "keys":
        return font.keys()
    if name == "glyphorder":
        return font.getGlyphOrder()
    if name == "revmap":
        return font.getReverseGlyphMap()
    if name == "bestcmap":
        if "cmap" in font:
            return font.getBestCmap()
        return None
    if name == "glyphset":
        from fontTools.pens.recordingPen import RecordingPen

        gs = font.getGlyphSet()
        go = font.getGlyphOrder()
        for j in range(3):
            g = _sel(go, k + j * 7919)
            if g in gs:
                gs[g].draw(RecordingPen())
        return None
    if name == "tabledata":
        t = _sel(tags, k)
        if t:
            return font.getTableData(t)
        return None
    if name == "deepcopy":
        c = copy.deepcopy(font)
        del c
        return None
    if name == "save":
        out = _do_save(font, a, scratch, counter)
        probes["op.save"] = probes.get("op.save", 0) + 1
        if a.get("flavor"):
            probes["op.save." + a["flavor"]] = probes.get("op.save." + a["flavor"], 0) + 1
        return out
    if name == "savexml":
        probes["op.savexml"] = probes.get("op.savexml", 0) + 1
        return _do_savexml(font, a, scratch, counter)
    if name == "failsave":
        mode = a["mode"]
        if mode == "compile":
            ld = loaded_set(font)
            t = _sel(ld, k)
            if t is None:
                return None
            with Raiser(font.tables[t], EXC[a.get("exc", "RuntimeError")]) as rz:
                try:
                    font.save(io.BytesIO())
                    probes["failsave.compile.not_reached"] = probes.get("failsave.compile.not_reached", 0) + 1
                except EXC[a.get("exc", "RuntimeError")]:
                    pass
            if rz.fired:
                faults["compile_raises." + a.get("exc", "RuntimeError")] = faults.get("compile_raises." + a.get("exc", "RuntimeError"), 0) + 1
                probes["op.failsave.compile"] = probes.get("op.failsave.compile", 0) + 1
            return None
        s = SimWriteStream(seekable=False, fail_at=0, partial=0.5 if mode == "dest_partial" else 0.0)
        try:
            font.save(s)
        except InjectedIOError:
            pass
        if s.fired:
            faults["dest_write_" + ("torn" if mode == "dest_partial" else "enospc")] = faults.get("dest_write_" + ("torn" if mode == "dest_partial" else "enospc"), 0) + 1
            probes["op.failsave.dest"] = probes.get("op.failsave.dest", 0) + 1
        return None
    raise ValueError(name)


def run_reference(src, h, steps, upto, save_params, scratch, then_observe=None, want_dump=False):
    """Fresh lazy=False replica: replays ops[0:upto] with every OBSERVE replaced by
    'load the tables the observed replica newly loaded' and every EDIT unchanged,
    then saves once with save_params. Frozen clock, plain environment."""
    from fontTools.ttLib import TTFont
    from fontTools.misc import timeTools

    knobs = h["knobs"]
    timeTools.time = SimClock(start=1.5e9, regime="frozen")
    for kx in ("TZ", "LANG", "LC_ALL"):
        os.environ.pop(kx, None)
    if knobs.get("pin") == "sde":
        os.environ["SOURCE_DATE_EPOCH"] = str(knobs["sde"])
    font = TTFont(io.BytesIO(src), lazy=False, recalcBBoxes=knobs.get("recalcBBoxes", True), recalcTimestamp=knobs.get("pin") == "sde")
    for t in steps[0]["loaded"]:
        if t in font:
            font[t]
    for i in range(upto):
        name, a = h["ops"][i]
        st = steps[i + 1] if i + 1 < len(steps) else None
        if st is None:
            break
        if name in EDIT_OPS:
            try:
                font = apply_edit(font, name, a)
            except Exception as e:
                return "exc:" + _exc_sig(e)
            if "exc" in st:
                return "exc:none-but-observed-raised:" + st["exc"]
        # bring the loaded set in line (sorted order, plain access)
        for t in st.get("new", []):
            if t in font:
                try:
                    font[t]
                except Exception:
                    pass  # the observed replica met (and recorded) the same failure
    if then_observe is not None:
        try:
            observe(font, then_observe[0], then_observe[1], scratch, [3000], {}, {})
            return "ok"
        except Exception as e:
            return "exc:" + _exc_sig(e)
    try:
        out = _do_save(font, dict(save_params, dest="bytesio"), scratch, [1000])
    except Exception as e:
        return "exc:" + _exc_sig(e)
    if want_dump:
        run_reference.dump = _dump_all(font)
    return out


def diff_tables(a, b):
    """Which tables differ between two sfnt images (harness-side reader, no fontTools)."""
    from oracles import container

    try:
        ta = container.tables_of(a)
        tb = container.tables_of(b)
    except Exception as e:
        return ["<unparseable:%s>" % type(e).__name__]
    out = []
    for t in sorted(set(ta) | set(tb)):
        if ta.get(t) != tb.get(t):
            out.append(t)
    return out or ["<container-only>"]


# ---------------------------------------------------------------------------
# execute


def execute(ctx, h):
    lvl = logging.root.manager.disable
    logging.disable(logging.CRITICAL)
    scratch = Scratch()
    try:
        kind = h.get("kind", "hist")
        if kind == "order":
            return exec_order(ctx, h)
        if kind == "hashsweep":
            return exec_hashsweep(ctx, h)
        if kind == "pipe":
            from props import c16_pipes

            return c16_pipes.execute(ctx, h)
        src = corpus.gen2(h["font"]) if not h.get("original") else corpus.raw(h["font"].split(":", 1)[1])
        if src is None:
            return {"events": ["ineligible"], "nontrivial": False}
        if kind == "hist":
            return exec_hist(ctx, h, src, scratch)
        if kind == "second_save":
            return exec_second_save(ctx, h, src, scratch)
        if kind == "clock":
            return exec_clock(ctx, h, src, scratch)
        if kind == "ttc":
            return exec_ttc(ctx, h, src, scratch)
        raise ValueError(kind)
    finally:
        scratch.close()
        logging.disable(lvl)


def _fresh(ctx, keys, hashseed="0", timeout=None):
    import json
    import subprocess
    import sys
    from sim import VERIF

    if not keys:
        return {}
    spec = ",".join("%s:%d" % (b, i) for b, i in keys)
    env = dict(os.environ, PYTHONHASHSEED=str(hashseed))
    cmd = [sys.executable, os.path.join(VERIF, "check"), ID, "--run-many", spec, "--seed", str(ctx.seed), "--tier", ctx.tier]
    cp = subprocess.run(cmd, capture_output=True, text=True, env=env, timeout=timeout or RUN_TIMEOUT_S - 20)
    out = {}
    for ln in cp.stdout.splitlines():
        if ln.startswith("{"):
            d = json.loads(ln)
            out[tuple(d["key"])] = d.get("digest")
    return out


def exec_hashsweep(ctx, h):
    keys = [tuple(k) for k in h["ops"]]
    a = _fresh(ctx, keys, h["seeds"][0])
    b = _fresh(ctx, keys, h["seeds"][1])
    res = {"events": [sorted((list(k), v) for k, v in a.items())], "probes": {"hashsweep.chunks": 1}, "states": [], "known": [], "nontrivial": True}
    n = 0
    for k in keys:
        if a.get(k) is None or b.get(k) is None:
            continue
        n += 1
        if a[k] != b[k] and not res.get("violation"):
            res["violation"] = {
                "class": "output-depends-on-hash-seed",
                "detail": "run %s:%d gives digest %s under PYTHONHASHSEED=%d but %s under PYTHONHASHSEED=%d (fresh interpreters, same run list)" % (k[0], k[1], a[k][:12], h["seeds"][0], b[k][:12], h["seeds"][1]),
                "sig": {},
            }
    res["probes"]["hashsweep.runs_compared"] = n
    return res


def exec_order(ctx, h):
    """Run the target alone, and after the prefix, each in a fresh interpreter; digests must agree."""
    import json
    import subprocess
    import sys
    from sim import VERIF

    def fresh(keys, hashseed="0", tz=None):
        spec = ",".join("%s:%d" % (b, i) for b, i in keys)
        env = dict(os.environ, PYTHONHASHSEED=str(hashseed))
        if tz:
            # the second replica also lives in another time zone and locale
            env.update(TZ=tz, LANG="tr_TR.UTF-8", LC_ALL="C")
        cmd = [sys.executable, os.path.join(VERIF, "check"), ID, "--run-many", spec, "--seed", str(ctx.seed), "--tier", ctx.tier]
        cp = subprocess.run(cmd, capture_output=True, text=True, env=env, timeout=RUN_TIMEOUT_S - 20)
        out = {}
        for ln in cp.stdout.splitlines():
            if ln.startswith("{"):
                d = json.loads(ln)
                out[tuple(d["key"])] = d.get("digest")
        return out, cp

    t = tuple(h["target"])
    alone, cp1 = fresh([t])
    other, cp3 = fresh([t], hashseed=h.get("hashseed", 12345), tz="JST-9")
    after, cp2 = fresh([tuple(k) for k in h["ops"]] + [t])
    res = {"events": [alone.get(t), other.get(t), after.get(t)], "probes": {"order.pairs": 1, "order.target." + t[0]: 1}, "states": [], "known": [], "nontrivial": True}
    if t in alone and t in other and alone[t] != other[t]:
        res["violation"] = {
            "class": "output-depends-on-hash-seed-or-environment",
            "detail": "run %s:%d gives digest %s under PYTHONHASHSEED=0 but %s under PYTHONHASHSEED=%s, TZ=JST-9 (each alone in a fresh interpreter)" % (t[0], t[1], str(alone[t])[:12], str(other[t])[:12], h.get("hashseed")),
            "sig": {},
        }
        return res
    if t not in alone or t not in after:
        if alone.get(t, 0) is None or after.get(t, 0) is None or (t in alone) != (t in after):
            pass
        # the target was skipped by the generator (ineligible font) or a child failed: inconclusive, not a violation
        res["probes"]["order.inconclusive"] = 1
        res["nontrivial"] = False
        return res
    if alone[t] != after[t]:
        res["violation"] = {
            "class": "result-depends-on-process-history",
            "detail": "run %s:%d gives digest %s alone in a fresh interpreter but %s after %d other runs in the same process (prefix in the replay file)" % (t[0], t[1], str(alone[t])[:12], str(after[t])[:12], len(h["ops"])),
            "sig": {},
        }
    return res


def exec_hist(ctx, h, src, scratch):
    events, probes, faults = [], {}, {}
    res = {"events": events, "probes": probes, "faults": faults, "states": [], "known": []}
    with world.isolated():
        font, steps, saves, aborted, clock = run_observed(src, h, scratch, events, probes, faults)
        res["sim_time"] = clock.span()
    res["nontrivial"] = any(s.get("kind") == "edit" or s.get("new") or s["op"] in ("save", "savexml", "failsave", "deepcopy") for s in steps[1:])
    # which saves to check: the last, plus up to n_checked-1 earlier plain or WOFF saves (a WOFF2 save
    # decodes and re-encodes glyph data itself; it is covered by C04 and the pipelines)
    checkable = [s for s in saves if s[1].get("flavor") in (None, "woff")]
    if not checkable and aborted is None:
        return res
    picks = checkable[-1:]
    earlier = checkable[:-1]
    r = prng.sub("pick", prng.digest(h))
    r.shuffle(earlier)
    picks = earlier[: max(0, h.get("n_checked", 1) - 1)] + picks
    if aborted is not None:
        # an EDIT raised in the observed replica: the reference must raise identically
        with world.isolated():
            ref = run_reference(src, h, steps, aborted + 1, {"reorder": True}, scratch)
        events.append({"aborted": aborted, "ref": ref if isinstance(ref, str) else prng.bdigest(ref)})
        want = "exc:" + steps[-1]["exc"]
        if ref != want:
            ename = steps[-1]["op"]
            res["violation"] = {
                "class": "edit-raises-only-after-observation:%s" % ename,
                "detail": "EDIT %s raised %s in the observed replica (lazy=%s) but the fresh reference gave %s" % (ename, steps[-1]["exc"], h["knobs"].get("lazy"), ref if isinstance(ref, str) else "a font"),
                "sig": _signature(h, aborted, [], steps),
            }
    # an OBSERVE op that raised in the observed replica must raise the same way when it is
    # the first observation ever made on a fresh lazy=False replica that replayed the edits
    for i, st in enumerate(steps[1:]):
        if st.get("kind") == "observe" and "exc" in st and not res.get("violation") and st["op"] != "failsave":
            with world.isolated():
                ref = run_reference(src, h, steps, i, None, scratch, then_observe=h["ops"][i])
            probes["observe.raised"] = probes.get("observe.raised", 0) + 1
            events.append({"observe_exc": i, "observed": st["exc"], "reference": ref})
            if ref != "exc:" + st["exc"]:
                res["violation"] = {
                    "class": "observation-fails-only-after-history:%s" % st["op"],
                    "detail": "OBSERVE %s %s raised %s in the observed replica (lazy=%s) but %s on a fresh edit-only replica; font=%s" % (st["op"], h["ops"][i][1], st["exc"], h["knobs"].get("lazy"), ref if isinstance(ref, str) else "succeeded", h["font"]),
                    "sig": _signature(h, i, [], steps),
                }
            break
    xml_state = getattr(run_observed, "xml_state", {})
    if xml_state.get("before") is not None and xml_state.get("after") is not None and _unordered(xml_state["before"]) != _unordered(xml_state["after"]) and not res.get("violation"):
        import difflib

        dl = [ln for ln in difflib.unified_diff(xml_state["before"].splitlines(), xml_state["after"].splitlines(), lineterm="", n=0) if ln[:1] in "+-" and ln[:3] not in ("+++", "---")]
        res["violation"] = {
            "class": "save-changes-object-model",
            "detail": "the dump of tables holding no recalculated data differs before and after a save of the same object: %s font=%s lazy=%s" % (dl[:4], h["font"], h["knobs"].get("lazy")),
            "sig": _signature(h, len(h["ops"]), [], steps),
        }
    if xml_state.get("before") is not None:
        probes["xml.before_after_save_compared"] = 1
    # observing is not editing: with no EDIT anywhere in the history, whatever was touched, dumped or saved
    # on the way, a plain save of a canonical font (a recompile fixed point) is the file it was opened from
    if aborted is None and not any(s.get("kind") == "edit" for s in steps[1:]) and not any(o[0] in ("failsave",) for o in h["ops"]):
        for i, params, out in picks:
            if params.get("flavor") is None and isinstance(out, bytes) and params.get("reorder", True) is True and not res.get("violation"):
                probes["observe_only.compared_with_file"] = probes.get("observe_only.compared_with_file", 0) + 1
                same = out == src
                if not same and h["knobs"].get("pin") == "sde":
                    # the pinned clock (SOURCE_DATE_EPOCH) legitimately restamps head.modified
                    from oracles import container

                    try:
                        ta, tb = container.tables_of(out), container.tables_of(src)
                        mk = lambda d: d[:8] + d[12:28] + d[36:]  # noqa: E731  without checkSumAdjustment, modified
                        same = set(ta) == set(tb) and all((mk(ta[t]) == mk(tb[t])) if t == "head" else ta[t] == tb[t] for t in ta) and container.order_of(out) == container.order_of(src)
                    except Exception:
                        same = False
                if not same:
                    res["violation"] = {
                        "class": "observe-only-history-changes-the-font",
                        "detail": "no EDIT in the history, yet the save at op %d differs from the canonical file the font was opened from in %s (lazy=%s, loaded %s) font=%s" % (i, diff_tables(out, src), h["knobs"].get("lazy"), sorted(loaded_set(font))[:12], h["font"]),
                        "sig": _signature(h, i, diff_tables(out, src), steps),
                    }
    for i, params, out in sorted(picks, key=lambda s: s[0]):
        if aborted is not None and i > aborted:
            continue
        want_dump = bool(params.get("final") and xml_state.get("full") is not None)
        with world.isolated():
            ref = run_reference(src, h, steps, i, params, scratch, want_dump=want_dump)
        if want_dump and ref == out and not res.get("violation"):
            probes["xml.dump_vs_reference_compared"] = 1
            rd = getattr(run_reference, "dump", None)
            if rd is not None and rd != xml_state["full"]:
                import difflib

                dl = [ln for ln in difflib.unified_diff(rd.splitlines(), xml_state["full"].splitlines(), lineterm="", n=0) if ln[:1] in "+-" and ln[:3] not in ("+++", "---")]
                res["violation"] = {
                    "class": "dump-depends-on-environment-or-history",
                    "detail": "both replicas save identical bytes but their TTX dumps differ (observed: lazy=%s tz=%s lang=%s): %s font=%s" % (h["knobs"].get("lazy"), h["knobs"].get("tz"), h["knobs"].get("lang"), dl[:4], h["font"]),
                    "sig": _signature(h, i, [], steps),
                }
        probes["save.checked"] = probes.get("save.checked", 0) + 1
        same = ref == out
        events.append({"save": i, "observed": out if isinstance(out, str) else prng.bdigest(out), "reference": ref if isinstance(ref, str) else prng.bdigest(ref)})
        loaded_at = sorted(set(t for s in steps[: i + 2] for t in s.get("new", []) + s.get("loaded", [])))
        res["states"].append(prng.digest([h["font"], h["knobs"].get("lazy"), loaded_at, prng.digest([o for o in h["ops"][:i] if o[0] in EDIT_OPS])])[:20])
        if not same and not res.get("violation"):
            if isinstance(out, bytes) and isinstance(ref, bytes):
                dt = diff_tables(out, ref)
                cls = "save-differs-from-edit-only-replica:" + ",".join(dt)
                detail = "save at op %d: observed %d bytes vs reference %d bytes; tables differing: %s" % (i, len(out), len(ref), dt)
            else:
                dt = []
                cls = "save-outcome-differs-from-edit-only-replica"
                detail = "save at op %d: observed %s vs reference %s" % (i, out if isinstance(out, str) else "bytes", ref if isinstance(ref, str) else "bytes")
            res["violation"] = {"class": cls, "detail": detail + " font=%s lazy=%s" % (h["font"], h["knobs"].get("lazy")), "sig": _signature(h, i, dt, steps)}
    # oracle 2 inside histories: saving the final object again gives the same bytes
    if aborted is None and saves and isinstance(saves[-1][2], bytes) and not res.get("violation"):
        with world.isolated():
            from fontTools.misc import timeTools

            timeTools.time = SimClock(start=3e9, regime="tick", step=86400.0)
            if h["knobs"].get("pin") == "sde":
                os.environ["SOURCE_DATE_EPOCH"] = str(h["knobs"]["sde"])
            try:
                again = _do_save(font, saves[-1][1], scratch, [2000])
            except Exception as e:
                again = "exc:" + _exc_sig(e)
        events.append({"second": again if isinstance(again, str) else prng.bdigest(again)})
        if again != saves[-1][2]:
            res["violation"] = {
                "class": "second-save-differs",
                "detail": "saving the same object twice gave different output (%s) font=%s tables=%s" % (again if isinstance(again, str) else "bytes", h["font"], diff_tables(again, saves[-1][2]) if isinstance(again, bytes) else ""),
                "sig": dict(_signature(h, len(h["ops"]), [], steps), first_save_loaded=steps[-1].get("new", [])),
            }
    if res.get("violation"):
        _match_known(ctx, h, res)
    return res


def _signature(h, upto, difftables, steps):
    ops = [o[0] for o in h["ops"][: upto + 1]]
    from fontTools.ttLib import TTFont

    try:
        f = TTFont(io.BytesIO(corpus.gen2(h["font"])), lazy=True)
        present = sorted(t for t in f.keys() if t != "GlyphOrder")
    except Exception:
        present = []
    return {"ops": ops, "lazy": h["knobs"].get("lazy"), "diff": difftables, "present": present}


def exec_second_save(ctx, h, src, scratch):
    """Oracle 2 and 3: save; save and saveXML; save; saveXML on one object."""
    from fontTools.ttLib import TTFont

    events, probes = [], {}
    res = {"events": events, "probes": probes, "states": [], "known": []}
    with world.isolated():
        font = TTFont(io.BytesIO(src), lazy=h["lazy"], recalcTimestamp=False)
        tags = _tags(font)
        try:
            for k in h["touch"]:
                font[_sel(tags, k)]
            if h["ensure"]:
                font.ensureDecompiled()
            x1 = None
            if h["xml"]:
                s = io.StringIO()
                font.saveXML(s)
                x1 = s.getvalue()
            p = {"flavor": h["flavor"], "reorder": h["reorder"], "dest": "bytesio"}
            l0 = set(loaded_set(font))
            b1 = _do_save(font, p, scratch, [0])
            newly = sorted(set(loaded_set(font)) - l0)
            d1 = [font.getTableData(t) for t in tags[:3]]
            b2 = _do_save(font, p, scratch, [0])
            d2 = [font.getTableData(t) for t in tags[:3]]
            x2 = None
            if h["xml"]:
                s = io.StringIO()
                font.saveXML(s)
                x2 = s.getvalue()
                b3 = _do_save(font, p, scratch, [0])
            else:
                b3 = b2
        except Exception as e:
            # a font that cannot be saved at all is C01's business; what matters here is stability
            events.append("exc:" + _exc_sig(e))
            res["nontrivial"] = False
            probes["second_save.unsavable"] = 1
            return res
    probes["second_save.flavor.%s" % h["flavor"]] = 1
    events.append([prng.bdigest(b1), prng.bdigest(b2), prng.bdigest(b3), prng.digest(x1)[:12], prng.digest(x2)[:12]])
    res["states"].append(prng.digest([h["font"], h["original"], h["lazy"], h["ensure"], h["flavor"]])[:20])
    res["nontrivial"] = True
    if newly:
        probes["second_save.first_save_loaded_tables"] = 1
    if b1 != b2 or b2 != b3:
        dt = diff_tables(b1, b2 if b1 != b2 else b3)
        res["violation"] = {
            "class": "second-save-differs",
            "detail": "save;save%s on %s (original=%s lazy=%s ensure=%s flavor=%s reorder=%s) differs in %s; tables newly loaded by the first save: %s" % (";saveXML;save" if b1 == b2 else "", h["font"], h["original"], h["lazy"], h["ensure"], h["flavor"], h["reorder"], dt, newly),
            "sig": {"original": bool(h["original"]), "ensure": bool(h["ensure"]), "first_save_loaded": newly, "diff": dt, "ops": [], "lazy": h["lazy"]},
        }
    elif d1 != d2:
        res["violation"] = {"class": "getTableData-unstable", "detail": "getTableData differs between two saves on %s" % h["font"]}
    elif h["xml"] and x1 != x2 and not h.get("original"):
        res["violation"] = {"class": "dump-changes-across-save", "detail": "saveXML before and after save differ on %s lazy=%s ensure=%s" % (h["font"], h["lazy"], h["ensure"])}
    if res.get("violation"):
        _match_known(ctx, h, res)
    return res


HEAD_MOD_OFF = 28  # head.modified: 8 bytes at offset 28


def exec_clock(ctx, h, src, scratch):
    from fontTools.ttLib import TTFont, TTCollection
    from fontTools.misc import timeTools
    from oracles import container

    events, probes = [], {}
    res = {"events": events, "probes": probes, "states": [], "known": []}
    mode = h["mode"]
    epoch_diff = timeTools.epoch_diff

    def open_font(data, recalc):
        f = TTFont(io.BytesIO(data), lazy=h["lazy"], recalcTimestamp=recalc)
        tags = _tags(f)
        for k in h["touch"]:
            f[_sel(tags, k)]
        return f

    def save(f):
        b = io.BytesIO()
        f.save(b)
        return b.getvalue()

    # reference: frozen clock, plain env, timestamp not recalculated
    with world.isolated():
        timeTools.time = SimClock(start=1e9, regime="frozen")
        ref = save(open_font(src, False))
    clock = SimClock(start=h["sde"] % 4_000_000_000, regime="jump", rng=prng.sub("clk", h["clock_seed"]))
    res["nontrivial"] = True
    if mode in ("pinned_norecalc", "pinned_sde"):
        env = {"TZ": h["tz"]} if h["tz"] else {}
        with world.isolated(env=env):
            timeTools.time = clock
            if mode == "pinned_sde":
                os.environ["SOURCE_DATE_EPOCH"] = str(h["sde"])
            out1 = save(open_font(src, mode == "pinned_sde"))
            out2 = save(open_font(src, mode == "pinned_sde"))
        events.append([mode, prng.bdigest(out1), prng.bdigest(out2), prng.bdigest(ref)])
        probes["clock." + mode] = 1
        if out1 != out2:
            res["violation"] = {"class": "time-dependence-when-pinned", "detail": "%s: two saves under different clock readings differ (%s) font=%s" % (mode, diff_tables(out1, out2), h["font"])}
        elif mode == "pinned_norecalc" and out1 != ref:
            res["violation"] = {"class": "time-dependence-when-pinned", "detail": "recalcTimestamp=False output depends on clock/TZ: tables %s font=%s" % (diff_tables(out1, ref), h["font"])}
        elif mode == "pinned_sde":
            dt = diff_tables(out1, ref)
            tb = container.tables_of(out1)
            mod = int.from_bytes(tb["head"][HEAD_MOD_OFF : HEAD_MOD_OFF + 8], "big", signed=True)
            if [t for t in dt if t not in ("head", "<container-only>")]:
                res["violation"] = {"class": "time-dependence-when-pinned", "detail": "SOURCE_DATE_EPOCH output differs from reference outside head: %s font=%s" % (dt, h["font"])}
            elif mod != h["sde"] - epoch_diff:
                res["violation"] = {"class": "source-date-epoch-ignored", "detail": "head.modified=%d, SOURCE_DATE_EPOCH wants %d; clock reads=%d font=%s" % (mod, h["sde"] - epoch_diff, len(clock.__dict__["reads"]), h["font"])}
            elif len(clock.__dict__["reads"]):
                probes["clock.read_despite_sde"] = 1
    elif mode == "unpinned":
        with world.isolated(env={"TZ": h["tz"]} if h["tz"] else {}):
            timeTools.time = clock
            out = save(open_font(src, True))
        reads = list(clock.__dict__["reads"])
        events.append([mode, prng.bdigest(out), len(reads)])
        probes["clock.unpinned"] = 1
        ta, tb = container.tables_of(out), container.tables_of(ref)
        bad = [t for t in sorted(set(ta) | set(tb)) if t != "head" and ta.get(t) != tb.get(t)]
        ha, hb = ta["head"], tb["head"]
        mask = lambda d: d[:8] + b"\0\0\0\0" + d[12:HEAD_MOD_OFF] + b"\0" * 8 + d[HEAD_MOD_OFF + 8 :]  # noqa: E731
        mod = int.from_bytes(ha[HEAD_MOD_OFF : HEAD_MOD_OFF + 8], "big", signed=True)
        if bad or mask(ha) != mask(hb):
            res["violation"] = {"class": "clock-leaks-beyond-head.modified", "detail": "tables %s differ (or head outside modified/checkSumAdjustment) font=%s" % (bad or ["head"], h["font"])}
        elif mod not in [int(v - epoch_diff) for v in reads]:
            res["violation"] = {"class": "modified-not-a-clock-reading", "detail": "head.modified=%d is none of the %d clock readings taken during the save font=%s" % (mod, len(reads), h["font"])}
    elif mode == "ttc":
        keys = corpus.all_gen2_keys()
        members = [src]
        for k in h["members"]:
            g = corpus.gen2(_sel(keys, k))
            if g is not None and (g[:4] == src[:4]):
                members.append(g)
        with world.isolated():
            timeTools.time = clock
            fonts = [open_font(m, True) for m in members]
            coll = TTCollection()
            coll.fonts = fonts
            flags = [f.recalcTimestamp for f in fonts]
            b = io.BytesIO()
            coll.save(b, shareTables=h["share"])
            out = b.getvalue()
            flags_after = [f.recalcTimestamp for f in fonts]
            n_reads = len(clock.__dict__["reads"])
            # a later operation on a member: saved alone, it is stamped with the time of THAT save
            member_out = save(fonts[0])
            member_reads = list(clock.__dict__["reads"])[n_reads:]
        reads = list(clock.__dict__["reads"])[:n_reads]
        events.append([mode, prng.bdigest(out), len(reads), len(members)])
        probes["clock.ttc"] = 1
        probes["clock.ttc.members"] = len(members)
        mods = []
        for n in range(len(members)):
            tb = container.tables_of(out, fontNumber=n)
            mods.append(int.from_bytes(tb["head"][HEAD_MOD_OFF : HEAD_MOD_OFF + 8], "big", signed=True))
        mmod = int.from_bytes(container.tables_of(member_out)["head"][HEAD_MOD_OFF : HEAD_MOD_OFF + 8], "big", signed=True)
        probes["clock.ttc.member_saved_after"] = 1
        if flags_after != flags:
            res["violation"] = {"class": "ttc-save-changes-member-state", "detail": "TTCollection.save left the members' recalcTimestamp at %s (was %s) font=%s" % (flags_after, flags, h["font"])}
        elif mmod not in [int(v - epoch_diff) for v in member_reads]:
            res["violation"] = {"class": "member-saved-after-collection-keeps-stale-timestamp", "detail": "a member saved on its own after the collection save carries head.modified=%d, none of the %d clock readings of that save (%s); the collection was stamped %s font=%s" % (mmod, len(member_reads), [int(v - epoch_diff) for v in member_reads][:3], mods[:1], h["font"])}
        elif len(set(mods)) != 1:
            res["violation"] = {"class": "ttc-members-differ-in-modified", "detail": "TTC members carry different head.modified %s under a ticking clock (share=%s)" % (mods, h["share"])}
        elif mods[0] not in [int(v - epoch_diff) for v in reads]:
            res["violation"] = {"class": "modified-not-a-clock-reading", "detail": "TTC head.modified=%d is none of the clock readings %s" % (mods[0], reads[:4])}
    res["sim_time"] = clock.span()
    res["states"].append(prng.digest([h["font"], mode, h["lazy"]])[:20])
    if res.get("violation"):
        _match_known(ctx, h, res)
    return res


def exec_ttc(ctx, h, src, scratch):
    """Collections. The file is a TTC assembled from canonical members (recompile fixed points), so which
    tables happen to be decoded cannot matter: the lazily opened collection with its touches, edits and
    intermediate saves must save exactly what a freshly, eagerly opened collection saves after the same
    edits and the same decoded-table sets; a member nobody edited keeps every table of the file; a second
    save repeats the first."""
    from fontTools.ttLib import TTFont, TTCollection
    from oracles import container

    events, probes = [], {}
    res = {"events": events, "probes": probes, "states": [], "known": [], "nontrivial": True}
    keys = corpus.all_gen2_keys()
    members = [src]
    for k in h["members"]:
        g = corpus.gen2(_sel(keys, k))
        if g is not None and g[:4] == src[:4]:
            members.append(g)
    if h.get("dup"):
        members.append(src)  # two members with identical tables: everything can be shared
    with world.isolated():
        coll = TTCollection()
        coll.fonts = [TTFont(io.BytesIO(m), lazy=False, recalcTimestamp=False) for m in members]
        b = io.BytesIO()
        coll.save(b, shareTables=True)
        file0 = b.getvalue()
    nm = len(members)
    base = [container.tables_of(file0, fontNumber=i) for i in range(nm)]

    def open_coll(lazy, share):
        return TTCollection(io.BytesIO(file0), shareTables=share, lazy=lazy, recalcTimestamp=False)

    def save(c, share):
        o = io.BytesIO()
        c.save(o, shareTables=share)
        return o.getvalue()

    outs = []
    edited = set()
    edits = []
    try:
        with world.isolated():
            c = open_coll(h["lazy"], h.get("open_share", False))
            for name, a in h["ops"]:
                if name == "save":
                    before = [sorted(loaded_set(f)) for f in c.fonts]
                    outs.append((len(edits), a["share"], save(c, a["share"]), before))
                    continue
                f = c.fonts[a["m"] % nm]
                if name == "touch":
                    tags = _tags(f)
                    f[_sel(tags, a["k"])]
                else:
                    apply_edit(f, name, a)
                    edits.append((a["m"] % nm, name, a))
                    edited.add(a["m"] % nm)
            after_first = [sorted(loaded_set(f)) for f in c.fonts]
            # the second save of the same object
            again = save(c, outs[-1][1])
    except Exception as e:
        events.append(["ttc-rejected", _exc_sig(e)])
        probes["ttc.rejected"] = 1
        res["nontrivial"] = False
        return res
    probes["ttc.histories"] = 1
    probes["ttc.members"] = nm
    if h.get("open_share"):
        probes["ttc.opened_with_shared_table_objects"] = 1
    where = " [members=%d lazy=%s open_share=%s ops=%s font=%s]" % (nm, h["lazy"], h.get("open_share"), [o[0] for o in h["ops"]], h["font"])
    events.append([prng.bdigest(o[2]) for o in outs])
    final = outs[-1][2]
    if again != final:
        # same class and signature as for single fonts: finding K1 (the first save itself decoded further
        # tables, which only the second save re-encodes / recalculates) is told apart by what the save loaded
        newly = sorted(set(t for a_, b_ in zip(after_first, outs[-1][3]) for t in set(a_) - set(b_)))
        res["violation"] = {"class": "second-save-differs", "detail": "two consecutive saves of one collection object differ; the first save decoded %s" % (newly or "nothing further") + where, "sig": {"first_save_loaded": newly, "ttc": True}}
    if not res.get("violation"):
        for i in range(nm):
            if i in edited:
                continue
            try:
                got = container.tables_of(final, fontNumber=i)
            except Exception as e:
                res["violation"] = {"class": "ttc-output-unreadable", "detail": str(e) + where}
                break
            probes["ttc.untouched_member_checked"] = probes.get("ttc.untouched_member_checked", 0) + 1
            hm = lambda d: d[:8] + d[12:] if d is not None and len(d) >= 12 else d  # noqa: E731  (checkSumAdjustment)
            bad = [t for t in sorted(set(got) | set(base[i])) if (hm(got.get(t)) if t == "head" else got.get(t)) != (hm(base[i].get(t)) if t == "head" else base[i].get(t))]
            if bad:
                res["violation"] = {"class": "ttc-unedited-member-changed", "detail": "member %d was never edited, yet its tables %s differ from the file after edits to members %s" % (i, bad, sorted(edited)) + where}
                break
    if not res.get("violation"):
        # reference: fresh eager collection, the edits before each save, one save
        for n_edits, share, out, _loaded in outs:
            with world.isolated():
                try:
                    rc = open_coll(False, False)
                    for m, name, a in edits[:n_edits]:
                        apply_edit(rc.fonts[m], name, a)
                    # same decoded-table sets as the observed members had when they were saved (whether a
                    # derived field is recalculated depends on what is decoded: findings K1/K2, not this batch)
                    for f, tags in zip(rc.fonts, _loaded):
                        for t in tags:
                            if t in f:
                                f[t]
                    ref = save(rc, share)
                except Exception as e:
                    ref = "exc:" + _exc_sig(e)
            probes["ttc.replica_compared"] = probes.get("ttc.replica_compared", 0) + 1
            if ref != out:
                detail = "raised " + ref if isinstance(ref, str) else ""
                if not isinstance(ref, str):
                    try:
                        dm = []
                        for i in range(nm):
                            ta, tb = container.tables_of(out, fontNumber=i), container.tables_of(ref, fontNumber=i)
                            d = [t for t in sorted(set(ta) | set(tb)) if ta.get(t) != tb.get(t)]
                            if d:
                                dm.append((i, d))
                        detail = "members/tables differing: %s (sizes %d vs %d)" % (dm or "<container only>", len(out), len(ref))
                    except Exception as e:
                        detail = "unreadable: %s" % e
                res["violation"] = {"class": "ttc-save-differs-from-edit-only-replica", "detail": "after %d edits, shareTables=%s: %s" % (n_edits, share, detail) + where, "sig": {"edits": [e[1] for e in edits[:n_edits]]}}
                break
    res["states"].append(prng.digest([h["font"], nm, h["lazy"], [o[0] for o in h["ops"]]])[:20])
    if res.get("violation"):
        _match_known(ctx, h, res)
    return res


def from_selftest_mismatch(ctx, key, prefix):
    """The kernel's determinism self-test found that run `key` gave another digest in a fresh interpreter
    (under another hash seed) than in its pool worker. For this property that is not a harness matter but
    the thing under test: the same run under two hash seeds, and alone against after the runs that
    preceded it in its worker (the recorded schedule), as ordinary histories of the hashsweep / order kind."""
    r = ctx.rng("selftest-mismatch", key[1])
    for _ in range(2):
        yield {"kind": "hashsweep", "ops": [list(key)], "seeds": [0, r.randrange(1, 1 << 31)], "font": None}
    yield {"kind": "order", "target": list(key), "ops": [list(k) for k in prefix][-150:], "font": None, "hashseed": r.randrange(1, 1 << 31)}


# ---------------------------------------------------------------------------
# known findings


def _match_known(ctx, h, res):
    from sim import runner

    v = res["violation"]
    for e in runner.load_known(ID):
        if known_match(h, v, e):
            res["known"].append({"id": e["id"], "text": e["text"]})
            res["violation"] = None
            return


def known_match(h, v, e):
    m = e["match"]
    if m.get("class") and m["class"] != v["class"]:
        return False
    sig = v.get("sig") or {}
    if "lazy" in m and sig.get("lazy") not in m["lazy"]:
        return False
    if "ops_any" in m and not (set(m["ops_any"]) & set(sig.get("ops", []))):
        return False
    if "ops_all" in m and not set(m["ops_all"]) <= set(sig.get("ops", [])):
        return False
    if "present_any" in m and not (set(m["present_any"]) & set(sig.get("present", []))):
        return False
    if "diff_subset_of" in m and not set(sig.get("diff", [])) <= set(m["diff_subset_of"]):
        return False
    if "detail_contains" in m and m["detail_contains"] not in v.get("detail", ""):
        return False
    if "font" in m and h.get("font") != m["font"]:
        return False
    if m.get("pattern") == "edit,compile,bigedit":
        ops = sig.get("ops", [])
        ok = False
        for i, a in enumerate(ops):
            if a in EDIT_OPS:
                for j in range(i + 1, len(ops)):
                    if ops[j] in ("save", "failsave", "tabledata"):
                        if any(b in BIG_EDITS for b in ops[j + 1 :]):
                            ok = True
        if not ok:
            return False
    if "original" in m and sig.get("original") != m["original"]:
        return False
    if "ensure" in m and sig.get("ensure") != m["ensure"]:
        return False
    if m.get("first_save_loaded_nonempty") and not sig.get("first_save_loaded"):
        return False
    return True


def simplify(ctx, h):
    """Argument simplification after ddmin: simpler knobs, then smaller selectors."""
    if h.get("kind", "hist") != "hist":
        return
    kn = h["knobs"]
    for key, val in (("source", "bytesio"), ("tz", None), ("lang", None), ("pin", "norecalc"), ("recalcBBoxes", True), ("pre_ensure", False)):
        if kn.get(key) != val:
            c = copy.deepcopy(h)
            c["knobs"][key] = val
            yield c
    for lz in (False, None):
        if kn.get("lazy") is not lz and kn.get("lazy") is True or (lz is False and kn.get("lazy") is None):
            c = copy.deepcopy(h)
            c["knobs"]["lazy"] = lz
            yield c
    for i, (name, a) in enumerate(h["ops"]):
        if name == "save" and (a.get("dest") != "bytesio" or a.get("reorder") is not True or a.get("flavor")):
            c = copy.deepcopy(h)
            c["ops"][i][1].update({"dest": "bytesio", "reorder": True, "flavor": None})
            yield c
        if name == "savexml" and len(a) > 1:
            c = copy.deepcopy(h)
            c["ops"][i][1] = {"k": a.get("k", 0)}
            yield c
