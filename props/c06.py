"""C06 — serialising layout tables never changes how text is shaped (facet).

BaseTTXConverter.compile is a retry loop over a three-state machine
(PURE_FT / HB_FT / FT_FALLBACK) around a native component that can fail, with
overflow resolution that mutates the lookup list in place between attempts: a
fault-tolerance protocol. The fault is injected at the existing seam `otBase.hb`.
"""
import io
import logging
import warnings
import os

from sim import corpus, prng, world
from oracles import shape as oshape

ID = "C06"
LEVEL = "fault_enumeration"
RUN_TIMEOUT_S = 300
RULE = (
    "each evaluation is one layout workload (the GSUB/GPOS/GDEF of a corpus font, a corpus feature file compiled by feaLib, or a "
    "generated table sized to overflow 16-bit offsets at lookup-list, lookup, subtable, coverage or class-record level) compiled under "
    "one configuration: repacker mode {off, auto, required} x an injected outcome for every repacker call (ok, RepackerError, "
    "MemoryError, ValueError; all call indices <= 6 are enumerated over the batch) x uharfbuzz present/absent x GPOS compaction level "
    "0..9 x second compile x lazy source; the result is shaped by HarfBuzz on coverage-guided glyph sequences and compared with the "
    "reference (original binary / baseline compile / the dict the table was generated from). Non-trivial = at least one shaping "
    "differs from the identity (no substitution, no adjustment); distinct = distinct history digest"
)
STATES_MEASURE = "distinct (workload, repacker mode, fault plan, state transitions observed) tuples"
COMPONENTS_REAL = ["fontTools otBase packer, overflow resolution, otTables split functions, otlLib builders and GPOS compaction, feaLib", "uharfbuzz repacker (when the plan says 'ok')", "HarfBuzz shaper as oracle"]
COMPONENTS_STUB = ["otBase.hb fault proxy (RepackerError / MemoryError / ValueError per call index)", "otBase.have_uharfbuzz flag", "generated overflow tables"]
ASSUMPTIONS = [
    "HarfBuzz (uharfbuzz as installed) is the trusted shaping oracle; glyph ids are fed through a PUA-offset nominal-glyph function",
    "glyph sequences are coverage-guided samples, not all sequences",
]
EXPECTED_PROBES = ["fault.RepackerError", "fault.MemoryError", "fault.ValueError", "state.fallback_used", "overflow.resolved", "mode.True", "mode.None", "mode.False", "no_uharfbuzz", "second_compile", "gen.pairs", "gen.manylookups", "gen.ligatures", "gen.unpackable", "shaping.nonidentity"]

TIERS = {
    "quick": {"budget_s": 600, "determinism_sample": 8, "n": {"corpus": 1400, "fea": 900, "gen": 153}, "minimise_s": 40, "max_minimise": 3},
    "thorough": {"budget_s": 5400, "determinism_sample": 80, "n": {"corpus": 15000, "fea": 8000, "gen": 1500}, "minimise_s": 120, "max_minimise": 6},
}

OUTCOMES = ["ok", "RepackerError", "MemoryError", "ValueError"]

_LAYOUT = None


def layout_fonts():
    global _LAYOUT
    if _LAYOUT is None:
        from fontTools.ttLib import TTFont

        out = []
        for rel in corpus.binaries():
            try:
                f = TTFont(corpus.path(rel), lazy=True)
                if "GSUB" in f or "GPOS" in f:
                    out.append(rel)
            except Exception:
                pass
        _LAYOUT = out
    return _LAYOUT


def prepare(ctx):
    return {"layout_fonts": len(layout_fonts()), "fea_files": len(corpus.fea_files())}


def batches(ctx):
    n = ctx.opts["cfg"]["n"]
    return [
        {"name": "corpus", "n": n["corpus"], "fault_free": False},
        {"name": "fea", "n": n["fea"], "fault_free": False},
        {"name": "gen", "n": n["gen"], "fault_free": False},
    ]


def _plan(r, idx):
    """Repacker outcome per call index. The batch enumerates (call index <= 6) x outcome systematically
    through idx, and adds seeded plans on top."""
    if r.random() < 0.5:
        k = idx % 7
        o = OUTCOMES[1 + (idx // 7) % 3]
        plan = ["ok"] * k + [o]
    else:
        plan = [r.choice(OUTCOMES) for _ in range(r.randint(0, 8))]
    return plan


def _config(r, idx):
    return {
        "mode": r.choice([False, None, None, True, True]),
        "plan": _plan(r, idx),
        "tail": r.choice(["ok", "ok", "RepackerError"]),  # outcome of every call after the plan is exhausted
        "have_hb": r.random() < 0.85,
        "level": r.choice([0, 0, 0, 1, 2, 5, 9]),
        "twice": r.random() < 0.4,
        "lazy": r.choice([None, True, False]),
    }


def generate(ctx, batch, idx):
    r = ctx.rng(batch, idx)
    if batch == "corpus":
        fonts = layout_fonts()
        return {"kind": "corpus", "font": fonts[idx % len(fonts)] if r.random() < 0.7 else r.choice(fonts), "cfg": _config(r, idx), "sseed": r.randrange(1 << 30), "ops": []}
    if batch == "fea":
        feas = corpus.fea_files()
        fea = feas[idx % len(feas)] if r.random() < 0.7 else r.choice(feas)
        if r.random() < 0.35:
            fea = "gen:%d" % r.randrange(1 << 30)  # a generated feature file (props/c16_feagen.py)
        return {"kind": "fea", "fea": fea, "cfg": _config(r, idx), "sseed": r.randrange(1 << 30), "ops": []}
    if batch == "gen":
        shapes = ["pairs", "classes", "manylookups", "ligatures", "markbase", "mixedpairs", "pairs", "classes", "manylookups", "ligatures", "markbase", "mixedpairs", "foreigncov", "multiple", "alternate", "singlepos", "marknull", "pairs", "unpackable"]
        sh = shapes[idx % len(shapes)]
        size = r.choice({"pairs": [90, 185, 262], "classes": [60, 190, 230], "manylookups": [62, 75, 95], "ligatures": [60, 95, 120], "mixedpairs": [8, 24, 150], "foreigncov": [40, 60, 300], "marknull": [2, 6, 40], "multiple": [(400, 5), (3000, 11), (5200, 6)], "alternate": [(300, 4), (2600, 12), (6000, 5)], "singlepos": [300, 8200, -20000, -30000, 12000], "markbase": [(120, 41), (200, 50), (200, 51), (260, 37)], "unpackable": [3]}[sh])
        return {"kind": "gen", "shape": sh, "size": size, "cfg": _config(r, idx), "sseed": r.randrange(1 << 30), "ops": []}
    raise ValueError(batch)


# ---------------------------------------------------------------------------
# fault proxy at the otBase.hb seam


class FaultyHB:
    def __init__(self, real, plan, tail, probes, faults):
        self.real = real
        self.plan = list(plan)
        self.tail = tail
        self.calls = 0
        self.probes = probes
        self.faults = faults
        self.RepackerError = real.RepackerError if real is not None else type("RepackerError", (Exception,), {})

    def __getattr__(self, n):
        return getattr(self.real, n)

    def serialize_with_tag(self, *a, **k):
        i = self.calls
        self.calls += 1
        o = self.plan[i] if i < len(self.plan) else self.tail
        if o == "ok" and self.real is None:
            o = "RepackerError"
        if o != "ok":
            self.faults["hb." + o] = self.faults.get("hb." + o, 0) + 1
            self.probes["fault." + o] = 1
            self.probes["fault.at_call_%d" % min(i, 7)] = 1
            if o == "RepackerError":
                raise self.RepackerError("injected")
            if o == "MemoryError":
                raise MemoryError("injected")
            raise ValueError("injected")
        return self.real.serialize_with_tag(*a, **k)


class Seams:
    """Installs the configuration: repacker mode, fault proxy, uharfbuzz presence; observes state transitions."""

    def __init__(self, cfg, probes, faults):
        self.cfg, self.probes, self.faults = cfg, probes, faults

    def __enter__(self):
        from fontTools.ttLib.tables import otBase

        self.otBase = otBase
        self.saved = (getattr(otBase, "hb", None), otBase.have_uharfbuzz, otBase.BaseTTXConverter.tryPackingFontTools, otBase.BaseTTXConverter.tryResolveOverflow)
        real = self.saved[0]
        self.proxy = FaultyHB(real, self.cfg["plan"], self.cfg["tail"], self.probes, self.faults)
        otBase.hb = self.proxy
        otBase.have_uharfbuzz = bool(self.cfg["have_hb"]) and real is not None
        if not otBase.have_uharfbuzz:
            self.probes["no_uharfbuzz"] = 1
        probes = self.probes
        orig_ft, orig_res = self.saved[2], self.saved[3]

        def ft(self_, writer):
            probes["state.pure_ft_pack"] = probes.get("state.pure_ft_pack", 0) + 1
            return orig_ft(self_, writer)

        def res(self_, font, e, last):
            ok = orig_res(self_, font, e, last)
            probes["overflow.seen"] = probes.get("overflow.seen", 0) + 1
            if ok:
                probes["overflow.resolved"] = probes.get("overflow.resolved", 0) + 1
            return ok

        otBase.BaseTTXConverter.tryPackingFontTools = ft
        otBase.BaseTTXConverter.tryResolveOverflow = res
        return self

    def __exit__(self, *a):
        ob = self.otBase
        if self.saved[0] is None:
            if hasattr(ob, "hb"):
                del ob.hb
        else:
            ob.hb = self.saved[0]
        ob.have_uharfbuzz = self.saved[1]
        ob.BaseTTXConverter.tryPackingFontTools = self.saved[2]
        ob.BaseTTXConverter.tryResolveOverflow = self.saved[3]
        if self.proxy.calls and any(k.startswith("fault.") for k in self.probes) and self.probes.get("state.pure_ft_pack"):
            self.probes["state.fallback_used"] = 1


def apply_cfg(font, cfg, probes):
    font.cfg["fontTools.ttLib.tables.otBase:USE_HARFBUZZ_REPACKER"] = cfg["mode"]
    probes["mode.%s" % cfg["mode"]] = 1


def compile_font(font, cfg, probes, faults):
    """Compile under the configured seams. Returns bytes, or ('exc', type name)."""
    with Seams(cfg, probes, faults):
        apply_cfg(font, cfg, probes)
        try:
            if cfg["level"] and "GPOS" in font:
                from fontTools.otlLib.optimize import compact

                compact(font, cfg["level"])
                probes["compact.level_%d" % cfg["level"]] = 1
            b = io.BytesIO()
            font.recalcTimestamp = False
            font.save(b)
            out = b.getvalue()
            if cfg["twice"]:
                probes["second_compile"] = 1
                b2 = io.BytesIO()
                font.save(b2)
                return out, b2.getvalue()
            return out, None
        except Exception as e:
            return ("exc", type(e).__name__, str(e)[:100]), None


def shape_all(data, ttfont_for_tags, seqs, limit_sl=3):
    """Shaping of every sequence under each script/language: at the design size, and once more at 12 ppem
    (where device tables apply) and, for a variable font, away from the default location (where the
    variation indices of values and anchors apply)."""
    feats = {t: True for t in oshape.feature_tags(ttfont_for_tags)}
    out = []
    var = None
    if "fvar" in ttfont_for_tags:
        var = {a.axisTag: (a.maxValue if a.maxValue != a.defaultValue else a.minValue) for a in ttfont_for_tags["fvar"].axes}
    for ppem, vv in ((None, None), (12, var)):
        font, face = oshape.make_font(data, ppem=ppem, variations=vv)
        for sc, lg in oshape.script_langs(ttfont_for_tags, limit_sl):
            for s in seqs:
                out.append(oshape.shape(font, s, sc, lg, feats))
    return out


def identity(seqs_results, seqs, base_adv=None):
    """True if a shaping result is what you get with no layout at all (same glyphs, no offsets)."""
    n = 0
    for res, s in zip(seqs_results, seqs * (len(seqs_results) // max(1, len(seqs)))):
        if [g for g, *_ in res] != s or any(r[4] or r[5] for r in res):
            n += 1
    return n


def execute(ctx, h):
    lvl = logging.root.manager.disable
    logging.disable(logging.CRITICAL)
    try:
        with world.isolated():
            warnings.simplefilter("ignore")
            k = h["kind"]
            if k == "corpus":
                return exec_corpus(ctx, h)
            if k == "fea":
                return exec_fea(ctx, h)
            if k == "gen":
                from props import c06_gen

                return c06_gen.execute(ctx, h)
            raise ValueError(k)
    finally:
        logging.disable(lvl)


def _required_but_absent(cfg, out):
    """mode=True ("required") without uharfbuzz is documented to raise ImportError: an error, never a wrong table."""
    return isinstance(out, tuple) and out[1] == "ImportError" and cfg["mode"] is True and not cfg["have_hb"]


def _fail(res, cls, detail, **sig):
    if not res.get("violation"):
        res["violation"] = {"class": cls, "detail": detail, "sig": sig}


def _cmp_shapings(res, ref, got, seqs, what, where):
    if len(ref) != len(got):
        _fail(res, "shaping-differs:" + what, "different number of shapings" + where)
        return
    for i, (a, b) in enumerate(zip(ref, got)):
        if a != b:
            s = seqs[i % len(seqs)]
            _fail(res, "shaping-differs:" + what, "glyph sequence %s shapes to %s with the reference but %s after serialisation" % (s, a[:6], b[:6]) + where, seq=s)
            return


def exec_corpus(ctx, h):
    from fontTools.ttLib import TTFont

    events, probes, faults = [], {}, {}
    res = {"events": events, "probes": probes, "faults": faults, "states": [], "known": [], "nontrivial": False}
    src = corpus.raw(h["font"])
    cfg = h["cfg"]
    where = " [font=%s cfg=%s]" % (h["font"], cfg)
    try:
        ref_font = TTFont(io.BytesIO(src), lazy=True)
        ng = ref_font["maxp"].numGlyphs
        hot = oshape.interesting_glyphs(ref_font)
        seqs = oshape.sequences(prng.sub("seq", h["sseed"]), ng, hot, n=24)
        ref = shape_all(src, ref_font, seqs)
    except Exception as e:
        events.append(["reference-failed", type(e).__name__])
        return res
    font = TTFont(io.BytesIO(src), lazy=cfg["lazy"], recalcTimestamp=False)
    try:
        for t in ("GSUB", "GPOS", "GDEF"):
            if t in font:
                font[t]
                if hasattr(font[t], "ensureDecompiled"):
                    font[t].ensureDecompiled()
    except Exception as e:
        events.append(["undecodable-layout", type(e).__name__])
        return res
    out, out2 = compile_font(font, cfg, probes, faults)
    events.append([h["font"], cfg["mode"], cfg["plan"], out[:2] if isinstance(out, tuple) else prng.bdigest(out)])
    res["states"].append("%s|%s|%s|%s" % (h["font"], cfg["mode"], cfg["plan"], sorted(k for k in probes if k.startswith(("state.", "overflow.")))))
    if _required_but_absent(cfg, out):
        probes["required_repacker_absent.raises"] = 1
        return res
    if isinstance(out, tuple):
        # an error instead of a table is allowed; the fault-tolerant path failing where pure python succeeds is not
        probes["raised." + out[1]] = 1
        font_b = TTFont(io.BytesIO(src), lazy=cfg["lazy"], recalcTimestamp=False)
        for t in ("GSUB", "GPOS", "GDEF"):
            if t in font_b:
                font_b[t]
        out_b, _ = compile_font(font_b, {"mode": False, "plan": [], "tail": "ok", "have_hb": True, "level": cfg["level"], "twice": False, "lazy": None}, {}, {})
        if isinstance(out_b, tuple):
            probes["raised.also_pure_python"] = 1
        if not isinstance(out_b, tuple):
            _fail(res, "fallback-fails-where-pure-python-succeeds:" + out[1], "compiling the layout tables raised %s (%s) under this configuration although the pure-python packer serialises them" % (out[1], out[2]) + where, exc=out[1])
        return res
    try:
        got = shape_all(out, ref_font, seqs)
    except Exception as e:
        _fail(res, "harfbuzz-rejects-output", "%s: %s" % (type(e).__name__, e) + where)
        return res
    nid = identity(ref, seqs)
    if nid:
        probes["shaping.nonidentity"] = probes.get("shaping.nonidentity", 0) + nid
    res["nontrivial"] = nid > 0
    _cmp_shapings(res, ref, got, seqs, "corpus", where)
    if out2 is not None and not res.get("violation"):
        if out2 != out:
            got2 = shape_all(out2, ref_font, seqs)
            _cmp_shapings(res, ref, got2, seqs, "second-compile", where)
            probes["second_compile.bytes_differ"] = 1
    return res


def exec_fea(ctx, h):
    from fontTools.ttLib import TTFont
    from fontTools.feaLib.builder import addOpenTypeFeatures
    from props import c16_pipes

    events, probes, faults = [], {}, {}
    res = {"events": events, "probes": probes, "faults": faults, "states": [], "known": [], "nontrivial": False}
    cfg = h["cfg"]
    where = " [fea=%s cfg=%s]" % (h["fea"], cfg)
    base_cfg = {"mode": False, "plan": [], "tail": "ok", "have_hb": True, "level": 0, "twice": False, "lazy": None}

    def build(c, pr, fl):
        f = TTFont(io.BytesIO(c16_pipes.fea_font()), recalcTimestamp=False)
        f.cfg["fontTools.otlLib.optimize.gpos:COMPRESSION_LEVEL"] = c["level"]
        with Seams(c, pr, fl):
            apply_cfg(f, c, pr)
            try:
                if h["fea"].startswith("gen:"):
                    from fontTools.feaLib.builder import addOpenTypeFeaturesFromString
                    from props import c16_feagen

                    addOpenTypeFeaturesFromString(f, c16_feagen.generate(prng.sub("feagen", int(h["fea"][4:]))))
                    pr["fea.generated"] = 1
                else:
                    addOpenTypeFeatures(f, corpus.path(h["fea"]))
                b = io.BytesIO()
                f.save(b)
                out = b.getvalue()
                if c["twice"]:
                    pr["second_compile"] = 1
                    b2 = io.BytesIO()
                    f.save(b2)
                    return out, b2.getvalue(), f
                return out, None, f
            except Exception as e:
                return ("exc", type(e).__name__, str(e)[:100]), None, None

    ref, _, ref_font = build(base_cfg, {}, {})
    if isinstance(ref, tuple):
        events.append(["fea-rejected", ref[1]])
        probes["fea_rejected"] = 1
        return res
    out, out2, _ = build(cfg, probes, faults)
    if isinstance(out, tuple) and cfg["level"] and not _required_but_absent(cfg, out):
        # does compaction itself reject this input (an error, allowed) or only the fault-tolerant path?
        same_level, _, _ = build(dict(base_cfg, level=cfg["level"]), {}, {})
        if isinstance(same_level, tuple):
            probes["raised.also_pure_python"] = 1
            probes["raised." + out[1]] = 1
            return res
    events.append([h["fea"], cfg["mode"], cfg["plan"], out[:2] if isinstance(out, tuple) else prng.bdigest(out)])
    res["states"].append("%s|%s|%s|%s" % (h["fea"], cfg["mode"], cfg["plan"], cfg["level"]))
    if _required_but_absent(cfg, out):
        probes["required_repacker_absent.raises"] = 1
        return res
    if isinstance(out, tuple):
        probes["raised." + out[1]] = 1
        _fail(res, "fallback-fails-where-pure-python-succeeds:" + out[1], "the feature file compiles with the pure-python packer but raised %s under this configuration: %s" % (out[1], out[2]) + where, exc=out[1])
        return res
    rf = TTFont(io.BytesIO(ref), lazy=True)
    ng = rf["maxp"].numGlyphs
    hot = oshape.interesting_glyphs(rf)
    seqs = oshape.sequences(prng.sub("seq", h["sseed"]), ng, hot, n=24)
    try:
        a = shape_all(ref, rf, seqs)
        b = shape_all(out, rf, seqs)
    except Exception as e:
        _fail(res, "harfbuzz-rejects-output", "%s: %s" % (type(e).__name__, e) + where)
        return res
    nid = identity(a, seqs)
    if nid:
        probes["shaping.nonidentity"] = probes.get("shaping.nonidentity", 0) + nid
    res["nontrivial"] = nid > 0
    _cmp_shapings(res, a, b, seqs, "fea", where)
    if out2 is not None and out2 != out and not res.get("violation"):
        _cmp_shapings(res, a, shape_all(out2, rf, seqs), seqs, "second-compile", where)
    return res


def simplify(ctx, h):
    import copy

    c = h.get("cfg", {})
    for k, v in (("twice", False), ("level", 0), ("lazy", None), ("have_hb", True), ("tail", "ok")):
        if c.get(k) != v:
            n = copy.deepcopy(h)
            n["cfg"][k] = v
            yield n
    if c.get("plan"):
        n = copy.deepcopy(h)
        n["cfg"]["plan"] = c["plan"][:-1]
        yield n
        n = copy.deepcopy(h)
        n["cfg"]["plan"] = ["ok" if o != "ok" and i < len(c["plan"]) - 1 else o for i, o in enumerate(c["plan"])]
        if n["cfg"]["plan"] != c["plan"]:
            yield n
