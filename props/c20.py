"""C20 — damaged or hostile input fails cleanly and is never executed.

(a) storage faults on stored images: truncation, byte flips in header and
    directory, torn and zero-filled images, garbage  -> TTLibError only;
(b) undecodable payloads under ignoreDecompileErrors=True -> kept raw, re-saved
    unchanged;
(c) hostile text values under an execution / file-system monitor (c20_text.py);
(d) a save whose compile fails leaves an existing destination untouched.
"""
import io
import logging
import os
import shutil
import struct
import tempfile

from sim import corpus, prng
from oracles import container

ID = "C20"
LEVEL = "fault_enumeration"
RUN_TIMEOUT_S = 120
RULE = (
    "each evaluation is one fault applied to one stored corpus image or one save: (a) a truncation length / byte flip / "
    "torn or zero-filled image / garbage image opened through TTFont (stream and path, lazy modes) with every table then "
    "read; (b) one table payload truncated or bit-flipped in an independently re-packed container, opened strictly and with "
    "ignoreDecompileErrors; (c) one hostile canary value at one site of one text input, read and processed under the "
    "monitor; (d) one table's compile (or the compressor) failing during a save onto an existing path. Non-trivial = the "
    "fault actually changed the image / fired; distinct = distinct (input, fault) digest"
)
STATES_MEASURE = "distinct (file, fault kind, outcome class) triples"
COMPONENTS_REAL = ["fontTools (all of /repo/Lib)", "CPython", "zlib", "brotli", "expat/lxml", "OS file system under a scratch directory"]
COMPONENTS_STUB = ["stored images (SimDisk fault operators)", "independent sfnt re-packer for payload faults", "failing table.compile / compressor proxies", "audit-hook and file-system monitor", "decoy modules on sys.path"]
ASSUMPTIONS = [
    "strict error-type oracle applies to what the property quantifies: sfnt (TTF/OTF) images and WOFF truncations; TTC, WOFF2 and corrupted WOFF directories are explored and counted as observations only",
    "'cannot be decoded' is established operationally: strict decompile of the same damaged image raises",
    "the audit hook sees every compile/exec/import/open/os.* event of the interpreter",
]
EXPECTED_PROBES = ["a.TTLibError", "a.opened", "b.undecodable", "b.resaved_unchanged", "b.through_ttx_unchanged", "d.fired"]

SMALL = 8192

TIERS = {
    "quick": {"budget_s": 400, "determinism_sample": 12, "payload_faults": 6, "flip_variants": 4, "big_trunc_samples": 48, "n": {"payload": 1400, "torn": 400, "garbage": 300, "failsave": 700, "text": 1200}, "minimise_s": 45, "max_minimise": 3},
    "thorough": {"budget_s": 5400, "determinism_sample": 100, "payload_faults": 12, "flip_variants": 10, "big_trunc_samples": 400, "n": {"payload": 12000, "torn": 5000, "garbage": 3000, "failsave": 5000, "text": 20000}, "minimise_s": 120, "max_minimise": 6},
}

CHUNK = 512  # fault positions per run


def _strict_images():
    """Corpus files to which the strict clause (a) applies: sfnt TTF/OTF and WOFF."""
    out = []
    for rel in corpus.binaries():
        out.append(rel)
    for rel in corpus.containers():
        if rel.endswith(".woff"):
            out.append(rel)
    return out


def _ext_images():
    return [r for r in corpus.containers() if not r.endswith(".woff") and not r.endswith(".dfont")]


def _dir_len(data):
    k = container.kind_of(data)
    if k == "sfnt":
        return 12 + 16 * container.u16(data, 4)
    if k == "woff":
        return 44 + 20 * container.u16(data, 12)
    if k == "ttc":
        return 12 + 4 * container.u32(data, 8)
    return 48


def prepare(ctx):
    files = _strict_images()
    cfg = ctx.opts["cfg"]
    plan = []  # (batch, rel, lo, hi)
    n_small = 0
    for rel in files:
        data = corpus.raw(rel)
        n = len(data)
        if n <= SMALL:
            n_small += 1
            for lo in range(0, n, CHUNK):
                plan.append(("trunc", rel, lo, min(n, lo + CHUNK)))
        else:
            d = min(n, _dir_len(data) + 64)
            for lo in range(0, d, CHUNK):
                plan.append(("trunc", rel, lo, min(d, lo + CHUNK)))
            plan.append(("trunc_sample", rel, d, n))
        d = min(n, _dir_len(data))
        for lo in range(0, d, CHUNK // 4):
            plan.append(("flip", rel, lo, min(d, lo + CHUNK // 4)))
    for rel in _ext_images():
        data = corpus.raw(rel)
        d = min(len(data), _dir_len(data) + 256)
        plan.append(("trunc_ext", rel, 0, d))
    ctx.world["plan"] = plan
    # every (font, table) pair of the corpus, for the undecodable-payload batch
    pairs = []
    for rel in corpus.binaries():
        try:
            for tag in sorted(container.tables_of(corpus.raw(rel))):
                pairs.append((rel, tag))
        except Exception:
            pass
    ctx.world["pairs"] = pairs
    return {"strict_images": len(files), "small_images_exhaustive": n_small, "extension_images": len(_ext_images()), "storage_fault_runs": len(plan)}


def batches(ctx):
    n = ctx.opts["cfg"]["n"]
    out = [{"name": "storage", "n": len(ctx.world["plan"]), "fault_free": False}]
    out.append({"name": "torn", "n": n["torn"], "fault_free": False})
    out.append({"name": "garbage", "n": n["garbage"], "fault_free": False})
    # at least one pass over every (font, table) pair of the corpus
    out.append({"name": "payload", "n": max(n["payload"], len(ctx.world.get("pairs", []))), "fault_free": False})
    out.append({"name": "failsave", "n": n["failsave"], "fault_free": False})
    from props import c20_text

    out.append({"name": "text", "n": n["text"], "fault_free": False})
    return out


def _plan(ctx):
    if "plan" not in ctx.world:
        prepare(ctx)
    return ctx.world["plan"]


def generate(ctx, batch, idx):
    r = ctx.rng(batch, idx)
    cfg = ctx.opts["cfg"]
    if batch == "storage":
        kind, rel, lo, hi = _plan(ctx)[idx]
        # "path0": by path with res_name_or_index=0, the way the ttx command opens every binary font (the
        # Macintosh resource-fork probe runs first)
        how = r.choice(["stream", "stream", "path", "path0"])
        lazy = r.choice([None, True, False])
        if kind == "trunc" or kind == "trunc_ext":
            ops = [["trunc", k] for k in range(lo, hi)]
        elif kind == "trunc_sample":
            ops = [["trunc", k] for k in sorted(r.sample(range(lo, hi), min(hi - lo, cfg["big_trunc_samples"])))]
        else:
            masks = [0x00, 0xFF] + [1 << b for b in range(8)]
            ops = []
            for pos in range(lo, hi):
                use = masks if cfg["flip_variants"] >= 10 else [0x00, 0xFF] + r.sample(masks[2:], cfg["flip_variants"] - 2)
                for m in use:
                    ops.append(["flip", pos, m])
        return {"kind": "storage", "font": rel, "strict": kind != "trunc_ext", "how": how, "lazy": lazy, "ops": ops}
    if batch == "torn":
        rel = r.choice(_strict_images())
        n = len(corpus.raw(rel))
        ops = []
        for _ in range(8):
            q = r.random()
            if q < 0.5:
                ops.append(["tear", r.randrange(1, max(2, n))])
            else:
                lo = r.randrange(0, n)
                ops.append(["zero", lo, min(n, lo + r.choice([1, 4, 16, 512, 4096]))])
        return {"kind": "storage", "font": rel, "strict": not rel.endswith(".woff"), "how": r.choice(["stream", "path", "path0"]), "lazy": r.choice([None, True, False]), "ops": ops}
    if batch == "garbage":
        ops = []
        for _ in range(16):
            magic = r.choice(["none", "none", "\0\1\0\0", "OTTO", "true", "ttcf", "wOFF", "wOF2"])
            ops.append(["garbage", magic, r.choice([0, 1, 3, 4, 11, 12, 13, 28, 64, 300, 5000]), r.randrange(1 << 30)])
        return {"kind": "storage", "font": None, "strict": True, "how": r.choice(["stream", "path", "path0"]), "lazy": r.choice([None, True, False]), "ops": ops}
    if batch == "payload":
        if "pairs" not in ctx.world:
            prepare(ctx)
        pairs = ctx.world["pairs"]
        rel, tag = pairs[idx % len(pairs)]
        tags = sorted(container.tables_of(corpus.raw(rel)))
        return {
            "kind": "payload",
            "font": rel,
            "tk": tags.index(tag),
            "lazy": r.choice([None, True, False]),
            "recalcBBoxes": r.random() < 0.7,
            "flavor": r.choice([None, None, "woff", "woff2"]),
            "ops": [[r.choice(["trunc", "trunc", "trunc", "bitflip", "bitflip", "empty"]), r.randrange(1 << 30)] for _ in range(cfg.get("payload_faults", 6) if len(corpus.raw(rel)) < 60_000 else 2)],
        }
    if batch == "failsave":
        rel = r.choice(corpus.binaries() + [c for c in corpus.containers() if c.endswith((".ttc", ".otc"))])
        return {
            "kind": "failsave",
            "font": rel,
            "api": r.choice(["TTFont.save", "TTFont.save", "TTCollection.save", "ttx", "subset", "instancer"]),
            "site": r.choice(["compile", "compile", "compile", "compressor", "repacker"]),
            "tk": r.randrange(1 << 16),
            "exc": r.choice(["RuntimeError", "MemoryError", "OSError", "struct.error"]),
            "flavor": r.choice([None, None, "woff", "woff2"]),
            "lazy": r.choice([None, True, False]),
            "ensure": r.random() < 0.6,
            "reorder": r.choice([True, True, False, None, None]),
            "ops": [],
        }
    if batch == "text":
        from props import c20_text

        return c20_text.generate(ctx, r, idx)
    raise ValueError(batch)


# ---------------------------------------------------------------------------
# fault operators on stored images (SimDisk)


def apply_fault(data, op, gen1=None):
    k = op[0]
    if k == "trunc":
        return data[: op[1]]
    if k == "flip":
        pos, m = op[1], op[2]
        b = bytearray(data)
        if m == 0x00:
            b[pos] = 0
        elif m == 0xFF:
            b[pos] = 0xFF
        else:
            b[pos] ^= m
        return bytes(b)
    if k == "tear":
        # a save of B killed half-way over an older file A: prefix of B, suffix of A
        other = gen1 if gen1 is not None else data[::-1]
        cut = min(op[1], len(other))
        return other[:cut] + data[cut:]
    if k == "zero":
        b = bytearray(data)
        b[op[1] : op[2]] = b"\0" * (min(op[2], len(b)) - op[1])
        return bytes(b)
    if k == "garbage":
        r = prng.sub("garbage", op[3])
        body = bytes(r.randrange(256) for _ in range(op[2]))
        if op[1] != "none":
            body = op[1].encode("latin1") + body
        return body
    raise ValueError(k)


def probe_open(image, how, lazy, scratch):
    """Open a (damaged) image and read every table. Returns (outcome, detail)."""
    from fontTools.ttLib import TTFont, TTLibError

    path = None
    try:
        if how in ("path", "path0"):
            path = os.path.join(scratch, "img.bin")
            with open(path, "wb") as f:
                f.write(image)
            src = path
        else:
            src = io.BytesIO(image)
        try:
            font = TTFont(src, 0, lazy=lazy) if how == "path0" else TTFont(src, lazy=lazy)
        except TTLibError as e:
            return "TTLibError", str(e)[:60]
        except MemoryError:
            # induced by the harness' own address-space limit (a corrupt length makes read() ask for up to 4 GB)
            return "memory-limit", ""
        except Exception as e:  # noqa
            return "OTHER", "%s: %s" % (type(e).__name__, str(e)[:100])
        try:
            reader = font.reader
            for tag in list(reader.keys()):
                entry = reader.tables[tag]
                want = getattr(entry, "origLength", None)
                if want is None:
                    want = entry.length
                try:
                    d = reader[tag]
                except TTLibError:
                    continue
                except MemoryError:
                    continue  # harness memory limit; without it this read comes back short and raises TTLibError
                except Exception as e:  # noqa
                    return "OTHER-READ", "%s reading %r: %s" % (type(e).__name__, tag, str(e)[:100])
                if len(d) != want:
                    return "SHORT-DATA", "table %r returned %d bytes, directory says %d" % (tag, len(d), want)
            return "opened", ""
        finally:
            font.close()
    finally:
        if path and os.path.exists(path):
            os.unlink(path)


def _tight_memory():
    """Damaged counts make decoders build huge lists; the less they may build before MemoryError, the less
    there is to unwind (a worker near 4 GB was seen to spend minutes in the allocator doing that)."""
    try:
        import resource

        soft, hard = resource.getrlimit(resource.RLIMIT_AS)
        want = 1280 * 1024 * 1024
        if soft == resource.RLIM_INFINITY or soft > want:
            resource.setrlimit(resource.RLIMIT_AS, (want, hard))
    except Exception:
        pass


def execute(ctx, h):
    if h.get("kind") in ("payload", "storage"):
        _tight_memory()
    lvl = logging.root.manager.disable
    logging.disable(logging.CRITICAL)
    scratch = tempfile.mkdtemp(prefix="verif-c20-")
    try:
        kind = h["kind"]
        if kind == "storage":
            return exec_storage(ctx, h, scratch)
        if kind == "payload":
            return exec_payload(ctx, h, scratch)
        if kind == "failsave":
            return exec_failsave(ctx, h, scratch)
        if kind == "text":
            from props import c20_text

            return c20_text.execute(ctx, h, scratch)
        raise ValueError(kind)
    finally:
        shutil.rmtree(scratch, ignore_errors=True)
        logging.disable(lvl)


def exec_storage(ctx, h, scratch):
    events, probes, faults = [], {}, {}
    res = {"events": events, "probes": probes, "faults": faults, "states": [], "known": []}
    data = corpus.raw(h["font"]) if h["font"] else b""
    gen1 = None
    for op in h["ops"]:
        if op[0] == "tear" and gen1 is None:
            try:
                gen1 = corpus._recompile(data)
            except Exception:
                gen1 = data[::-1]
        img = apply_fault(data, op, gen1)
        changed = img != data
        faults[op[0]] = faults.get(op[0], 0) + 1
        out, detail = probe_open(img, h["how"], h["lazy"], scratch)
        strict = h["strict"]
        if op[0] == "garbage" and op[1] in ("ttcf", "wOFF", "wOF2"):
            strict = False
        if op[0] in ("flip", "zero", "tear") and h["font"] and h["font"].endswith(".woff"):
            strict = False
        key = ("a." if strict else "ext.") + out
        probes[key] = probes.get(key, 0) + 1
        # whether a corrupt 4 GB length hits the harness' own memory limit depends on the process; the event
        # log records both outcomes alike so that it stays a pure function of the run
        shown = "rejected" if out in ("TTLibError", "memory-limit") else out
        events.append([op, shown])
        res["states"].append("%s|%s|%s" % (h["font"], op[0], shown))
        if not changed:
            probes["a.fault_was_identity"] = probes.get("a.fault_was_identity", 0) + 1
        if strict and out not in ("TTLibError", "opened", "memory-limit") and not res.get("violation"):
            res["violation"] = {
                "class": "open-damaged:%s:%s" % (out, detail.split(":")[0].split(" ")[0]),
                "detail": "%s on %s (how=%s lazy=%s): %s" % (op, h["font"], h["how"], h["lazy"], detail),
                "sig": {"font": h["font"], "op": op[0], "exc": detail.split(":")[0]},
            }
        elif not strict and out not in ("TTLibError", "opened", "memory-limit"):
            kx = "ext.exc." + detail.split(":")[0].split(" ")[0]
            probes[kx] = probes.get(kx, 0) + 1
    res["nontrivial"] = bool(h["ops"])
    if res.get("violation"):
        _match_known(h, res)
    return res


# ---------------------------------------------------------------------------
# (b) undecodable payloads


def _damage(payload, fault, fk):
    r = prng.sub("damage", fk)
    if fault == "empty":
        return b""
    if fault == "trunc":
        if len(payload) <= 1:
            return b""
        return payload[: r.randrange(0, len(payload))]
    b = bytearray(payload)
    if not b:
        return b"\xff"
    pos = r.randrange(len(b)) if r.random() < 0.5 else r.randrange(min(len(b), 8))
    b[pos] ^= 1 << r.randrange(8)
    return bytes(b)


def exec_payload(ctx, h, scratch):
    """Several damages of one (font, table) pair per run; ops = [[fault kind, seed], ...]."""
    total = {"events": [], "probes": {}, "faults": {}, "states": [], "known": [], "nontrivial": False}
    ops = h.get("ops") or [[h.get("fault", "trunc"), h.get("fk", 0)]]
    for fault, fk in ops:
        one = dict(h, fault=fault, fk=fk)
        r = _exec_payload_one(ctx, one, scratch)
        total["events"].extend(r["events"])
        for k, v in r["probes"].items():
            total["probes"][k] = total["probes"].get(k, 0) + v
        for k, v in r["faults"].items():
            total["faults"][k] = total["faults"].get(k, 0) + v
        total["states"].extend(r["states"])
        total["nontrivial"] = total["nontrivial"] or r["nontrivial"]
        for kf in r["known"]:
            if kf["id"] not in [x["id"] for x in total["known"]]:
                total["known"].append(kf)
        if r.get("violation") and not total.get("violation"):
            total["violation"] = r["violation"]
    return total


def _cmap_bomb(data, limit=3_000_000):
    """True when a format 12/13 subtable reachable from the encoding records has a group spanning more than
    `limit` code points (read from the raw bytes, independently of the library)."""
    try:
        if len(data) < 4:
            return False
        n = struct.unpack_from(">H", data, 2)[0]
        for i in range(min(n, 64)):
            if 4 + 8 * i + 8 > len(data):
                break
            off = struct.unpack_from(">L", data, 4 + 8 * i + 4)[0]
            if off + 16 > len(data):
                continue
            fmt = struct.unpack_from(">H", data, off)[0]
            if fmt in (12, 13):
                ng = struct.unpack_from(">L", data, off + 12)[0]
                total = 0
                for g in range(min(ng, (len(data) - off - 16) // 12)):
                    a, b, _gid = struct.unpack_from(">LLL", data, off + 16 + 12 * g)
                    if b >= a:
                        total += b - a + 1
                    if total > limit:
                        return True
            elif fmt == 8 and off + 8208 + 4 <= len(data):
                ng = struct.unpack_from(">L", data, off + 8204)[0]
                total = 0
                for g in range(min(ng, (len(data) - off - 8208) // 12)):
                    a, b, _gid = struct.unpack_from(">LLL", data, off + 8208 + 12 * g)
                    if b >= a:
                        total += b - a + 1
                    if total > limit:
                        return True
    except struct.error:
        return False
    return False


def _exec_payload_one(ctx, h, scratch):
    from fontTools.ttLib import TTFont

    events, probes, faults = [], {}, {}
    res = {"events": events, "probes": probes, "faults": faults, "states": [], "known": [], "nontrivial": False}
    src = corpus.raw(h["font"])
    try:
        tabs = container.tables_of(src)
    except Exception:
        return res
    tags = sorted(tabs)
    tag = tags[h["tk"] % len(tags)]
    bad = _damage(tabs[tag], h["fault"], h["fk"])
    if bad == tabs[tag]:
        probes["b.fault_was_identity"] = 1
        return res
    tabs2 = dict(tabs)
    tabs2[tag] = bad
    img = container.rebuild_sfnt(src[:4], tabs2)
    # what is actually stored (the re-packer owns head.checkSumAdjustment)
    bad = container.tables_of(img)[tag]
    faults["payload." + h["fault"]] = 1
    if tag == "cmap" and _cmap_bomb(bad):
        # a segmented-coverage subtable (format 12/13) whose damaged group claims millions of code points:
        # the decoder materialises them all (gigabytes, inside C calls no alarm interrupts; a worker at the
        # address-space limit was seen to wedge for minutes). A weakness on hostile input, outside this
        # clause's text; recognised from the raw bytes and not run.
        probes["b.cmap_range_bomb_skipped"] = 1
        events.append([h["font"], tag, h["fault"], "resource-limit"])
        return res
    # is it undecodable? (strict open, same lazy mode)
    undecodable = None
    from sim.runner import time_limit, RunTimeout

    try:
        with time_limit(6):
            f = TTFont(io.BytesIO(img), lazy=h["lazy"])
            f[tag]
        undecodable = False
    except (RunTimeout, MemoryError) as e:
        # damaged counts can make a decoder loop for minutes or build gigabytes: which of the harness' two
        # resource limits ends it depends on the state of the process, so both are one outcome in the event
        # log (digests stay a function of the run), and the run is inconclusive as far as this clause goes
        probes["b.decode_exceeds_6s" if isinstance(e, RunTimeout) else "b.decode_hits_memory_limit"] = 1
        events.append([h["font"], tag, h["fault"], "resource-limit"])
        return res
    except Exception as e:
        undecodable = type(e).__name__
    events.append([h["font"], tag, h["fault"], undecodable])
    if not undecodable:
        probes["b.decodes_anyway"] = 1
        return res
    res["nontrivial"] = True
    probes["b.undecodable"] = 1
    probes["b.undecodable." + tag.strip()] = 1
    res["states"].append("%s|%s|%s" % (h["font"], tag, undecodable))
    # b1: kept as raw bytes
    f = TTFont(io.BytesIO(img), lazy=h["lazy"], ignoreDecompileErrors=True, recalcBBoxes=h["recalcBBoxes"], recalcTimestamp=False)
    try:
        f[tag]
        got = f.getTableData(tag)
    except MemoryError:
        # the harness' own address-space limit hit while the decoder was building something huge from a
        # damaged count: inconclusive, not the library's verdict (without the limit it would go on allocating)
        probes["b.memory_limit_in_decode"] = 1
        events.append([h["font"], tag, h["fault"], "resource-limit"])
        return res
    except Exception as e:
        res["violation"] = {"class": "undecodable-not-kept-raw:%s" % tag.strip(), "detail": "with ignoreDecompileErrors=True, access/getTableData of damaged %r in %s raised %s: %s" % (tag, h["font"], type(e).__name__, str(e)[:100]), "sig": {"tag": tag, "clause": "b1", "exc": type(e).__name__}}
        _match_known(h, res)
        return res
    if got != bad:
        res["violation"] = {"class": "undecodable-not-kept-raw:%s" % tag.strip(), "detail": "getTableData(%r) returned %d bytes != the %d damaged bytes (%s)" % (tag, len(got), len(bad), h["font"]), "sig": {"tag": tag, "clause": "b1", "exc": "mismatch"}}
        _match_known(h, res)
        return res
    probes["b.kept_raw"] = 1
    # b2: re-saved unchanged when it is the only table the caller touched.
    # A flavoured container must itself interpret some tables (WOFF takes its version
    # from head; WOFF2 transforms glyf/loca/hmtx and reads head/maxp/hhea/fvar for
    # that): re-saving those *undecodable* in that flavour is not something the
    # clause can ask for, so such pairs are explored and counted, not judged.
    interpreted = {"woff": {"head"}, "woff2": {"head", "glyf", "loca", "hmtx", "hhea", "maxp", "fvar", "gvar", "DSIG"}}.get(h["flavor"], set())
    judged = tag not in interpreted
    f.flavor = h["flavor"]
    try:
        out = io.BytesIO()
        f.save(out)
    except Exception as e:
        import traceback

        tb = traceback.extract_tb(e.__traceback__)
        site = "%s:%s" % (os.path.basename(tb[-1].filename), tb[-1].name)
        if not judged:
            probes["b.ext.flavour_must_interpret.%s.%s" % (h["flavor"], tag.strip())] = 1
            return res
        res["violation"] = {
            "class": "undecodable-not-resaved:%s:save-raises" % tag.strip(),
            "detail": "save after keeping damaged %r raw (%s, fault=%s, flavor=%s, lazy=%s) raised %s at %s: %s" % (tag, h["font"], h["fault"], h["flavor"], h["lazy"], type(e).__name__, site, str(e)[:100]),
            "sig": {"tag": tag, "clause": "b2", "exc": type(e).__name__, "site": site},
        }
        _match_known(h, res)
        return res
    if h["flavor"] == "woff2" and tag == "DSIG":
        # WOFF2 drops DSIG by specification (the encoding invalidates signatures)
        probes["b.ext.woff2_drops_DSIG"] = 1
        return res
    try:
        if h["flavor"] == "woff2":
            back = TTFont(io.BytesIO(out.getvalue()), lazy=True).reader[tag]
        else:
            back = container.tables_of(out.getvalue())[tag]
    except Exception as e:
        res["violation"] = {"class": "undecodable-not-resaved:%s:unreadable" % tag.strip(), "detail": "output unreadable for %r: %s" % (tag, e), "sig": {"tag": tag, "clause": "b2", "exc": type(e).__name__}}
        _match_known(h, res)
        return res
    want = bad
    if tag == "head" and len(bad) >= 12:
        mask = lambda d: d[:8] + b"\0\0\0\0" + d[12:]  # noqa: E731  checkSumAdjustment is container-owned
        if h["flavor"] == "woff2" and len(bad) >= 18:
            # WOFF2 sets head.flags bit 11 by specification
            mask = lambda d: d[:8] + b"\0\0\0\0" + d[12:16] + bytes([d[16] | 0x08]) + d[17:]  # noqa: E731
        back, want = mask(back), mask(want)
    if back != want:
        res["violation"] = {
            "class": "undecodable-not-resaved:%s:bytes-differ" % tag.strip(),
            "detail": "damaged %r (%d bytes) came back as %d different bytes (%s, flavor=%s)" % (tag, len(bad), len(back), h["font"], h["flavor"]),
            "sig": {"tag": tag, "clause": "b2", "exc": "differ", "short_head": tag == "head" and len(bad) < 12},
        }
        _match_known(h, res)
        return res
    probes["b.resaved_unchanged"] = 1
    if h["fk"] % 3 == 1 and tag not in ("hmtx", "vmtx", "glyf", "loca", "post", "head", "maxp", "hhea", "vhea"):
        # the same through the text form (what the ttx command does, which ignores decompile errors by
        # default): the table is dumped as hex data marked as undecodable, and importing that dump gives
        # the damaged bytes back, not a table of the tag's own class built from nothing
        try:
            f2 = TTFont(io.BytesIO(img), lazy=h["lazy"], ignoreDecompileErrors=True, recalcTimestamp=False)
            sx = io.StringIO()
            f2.saveXML(sx, tables=[tag])
            f3 = TTFont()
            f3.importXML(io.StringIO(sx.getvalue()))
            back = f3.getTableData(tag)
        except MemoryError:
            probes["b.memory_limit_in_decode"] = 1
            return res
        except Exception as e:
            back = None
            err = "%s: %s" % (type(e).__name__, str(e)[:120])
        if back != bad:
            res["violation"] = {
                "class": "undecodable-not-resaved:%s:through-ttx" % tag.strip(),
                "detail": "damaged %r (%d bytes) dumped to TTX with decompile errors ignored and imported again %s (%s, fault=%s)" % (tag, len(bad), ("raised " + err) if back is None else "came back as %d different bytes" % len(back), h["font"], h["fault"]),
                "sig": {"tag": tag, "clause": "b3", "exc": "differ" if back is not None else err.split(":")[0]},
            }
            _match_known(h, res)
            return res
        probes["b.through_ttx_unchanged"] = 1
    if h["flavor"] is None and h["fk"] % 2 == 0 and tag not in ("hmtx", "vmtx", "glyf", "loca", "post", "head", "maxp", "hhea", "vhea"):
        # (the tables of findings K3-K7 and the ones a save has to interpret are left to the single-font clause)
        _payload_in_collection(h, img, tag, bad, res)
    return res


def _payload_in_collection(h, img, tag, bad, res):
    """The same damaged table shared by the members of a collection that is opened with shared table
    objects: every member keeps it raw, can be dumped, and the re-saved collection carries the bytes."""
    from fontTools.ttLib import TTFont, TTCollection

    probes = res["probes"]
    try:
        c0 = TTCollection()
        c0.fonts = [TTFont(io.BytesIO(img), ignoreDecompileErrors=True, recalcTimestamp=False) for _ in range(2)]
        b = io.BytesIO()
        c0.save(b, shareTables=True)
        ttc = b.getvalue()
        offs = container.ttc_offsets(ttc)
        if len(offs) != 2 or container.tables_of(ttc, fontNumber=1).get(tag) != bad:
            return
    except Exception:
        return
    probes["b.ttc_shared"] = 1
    try:
        c = TTCollection(io.BytesIO(ttc), shareTables=True, ignoreDecompileErrors=True, lazy=h["lazy"], recalcTimestamp=False)
        order = [0, 1] if h["fk"] % 4 == 0 else [1, 0]
        for i in order:
            m = c.fonts[i]
            m[tag]
            got = m.getTableData(tag)
            if got != bad:
                raise AssertionError("member %d: getTableData returns %d bytes, the damaged table has %d" % (i, len(got), len(bad)))
            m.saveXML(io.StringIO(), tables=[tag])
        o = io.BytesIO()
        c.save(o, shareTables=h["fk"] % 8 < 4)
        for i in (0, 1):
            back = container.tables_of(o.getvalue(), fontNumber=i).get(tag)
            if back != bad and not (tag == "head" and back is not None and len(back) >= 12 and back[:8] + back[12:] == bad[:8] + bad[12:]):
                raise AssertionError("member %d of the re-saved collection stores %s bytes for the damaged table (%d)" % (i, None if back is None else len(back), len(bad)))
    except Exception as e:
        res["violation"] = {
            "class": "undecodable-not-kept-raw:%s:shared-in-collection" % tag.strip(),
            "detail": "damaged %r shared by two members of a collection opened with shareTables=True, ignoreDecompileErrors=True (%s, fault=%s, lazy=%s): %s: %s" % (tag, h["font"], h["fault"], h["lazy"], type(e).__name__, str(e)[:160]),
            "sig": {"tag": tag, "clause": "b1-ttc", "exc": type(e).__name__},
        }
        _match_known(h, res)


# ---------------------------------------------------------------------------
# (d) failing save leaves the destination untouched


class FailAt:
    """Raise from the k-th loaded table's compile (class-level wrapper keyed on identity)."""

    def __init__(self, table, exc):
        self.table, self.exc, self.cls = table, exc, type(table)
        self.orig = self.cls.__dict__.get("compile")
        self.fired = 0

    def __enter__(self):
        target, me = self.table, self
        inherited = getattr(self.cls, "compile")

        def compile(self_, *a, **k):
            if self_ is target:
                me.fired += 1
                raise me.exc("injected compile failure")
            return inherited(self_, *a, **k)

        self.cls.compile = compile
        return self

    def __exit__(self, *a):
        if self.orig is None:
            del self.cls.compile
        else:
            self.cls.compile = self.orig


def _exc(name):
    return {"RuntimeError": RuntimeError, "MemoryError": MemoryError, "OSError": OSError, "struct.error": struct.error}[name]


def _listing(d):
    out = {}
    for root, dirs, files in os.walk(d):
        for fn in files:
            p = os.path.join(root, fn)
            with open(p, "rb") as f:
                out[os.path.relpath(p, d)] = (prng.bdigest(f.read()), os.stat(p).st_mtime_ns)
    return out


def exec_failsave(ctx, h, scratch):
    from fontTools.ttLib import TTFont, TTCollection
    from sim import world

    events, probes, faults = [], {}, {}
    res = {"events": events, "probes": probes, "faults": faults, "states": [], "known": [], "nontrivial": False}
    rel = h["font"]
    src = corpus.raw(rel)
    is_ttc = container.kind_of(src) == "ttc"
    api = h["api"]
    if is_ttc:
        api = "TTCollection.save"
    outdir = os.path.join(scratch, "out")
    os.makedirs(outdir)
    ext = ".ttc" if api == "TTCollection.save" else (".otf" if src[:4] == b"OTTO" else ".ttf")
    if h["flavor"] and api != "TTCollection.save":
        ext = "." + h["flavor"]
    dest = os.path.join(outdir, "existing" + ext)
    known = b"KNOWN-DESTINATION-CONTENT " * 3 + bytes(range(256))
    with open(dest, "wb") as f:
        f.write(known)
    os.utime(dest, ns=(1_500_000_000_000_000_000, 1_500_000_000_000_000_000))
    srcpath = os.path.join(scratch, "input" + (".ttc" if is_ttc else ".otf" if src[:4] == b"OTTO" else ".ttf"))
    with open(srcpath, "wb") as f:
        f.write(src)
    before = _listing(outdir)
    exc = _exc(h["exc"])
    fired = [0]
    outcome = None
    try:
        with world.isolated(cwd=scratch):
            if api in ("TTFont.save", "TTCollection.save"):
                if api == "TTCollection.save":
                    if is_ttc:
                        coll = TTCollection(io.BytesIO(src), lazy=h["lazy"])
                    else:
                        coll = TTCollection()
                        coll.fonts = [TTFont(io.BytesIO(src), lazy=h["lazy"]), TTFont(io.BytesIO(src), lazy=h["lazy"])]
                    fonts = list(coll.fonts)
                    saver = lambda: coll.save(dest)  # noqa: E731
                else:
                    font = TTFont(io.BytesIO(src), lazy=h["lazy"])
                    font.flavor = h["flavor"]
                    fonts = [font]
                    saver = lambda: font.save(dest, reorderTables=h.get("reorder", True))  # noqa: E731
                target_font = fonts[h["tk"] % len(fonts)]
                if h["ensure"]:
                    target_font.ensureDecompiled()
                else:
                    tags = [t for t in target_font.keys() if t != "GlyphOrder"]
                    target_font[tags[h["tk"] % len(tags)]]
                outcome = _run_with_fault(h, target_font, saver, exc, fired)
            else:
                outcome = _run_cli(h, api, srcpath, dest, exc, fired, scratch)
    except _Skip as e:
        events.append(["skip", str(e)])
        probes["d.skipped." + str(e)] = 1
        return res
    after = _listing(outdir)
    events.append([rel, api, h["site"], outcome, fired[0]])
    if not fired[0]:
        probes["d.not_reached"] = 1
        return res
    res["nontrivial"] = True
    faults["%s_raises.%s" % (h["site"], h["exc"])] = 1
    probes["d.fired"] = 1
    probes["d.api." + api] = 1
    res["states"].append("%s|%s|%s" % (rel, api, h["site"]))
    if outcome.startswith("raised-other"):
        probes["d.save_failed_on_its_own"] = 1
    if outcome == "ok":
        # the failure was swallowed (e.g. repacker fallback): then the save is a normal, complete one
        probes["d.failure_absorbed"] = 1
        return res
    if after != before:
        changed = sorted(set(k for k in set(before) | set(after) if before.get(k) != after.get(k)))
        if os.path.exists(dest):
            with open(dest, "rb") as f:
                now = f.read()
            state = "destination now %d bytes%s" % (len(now), "" if now != known else " (content same, mtime changed)")
        else:
            state = "the destination file is gone"
        res["violation"] = {
            "class": "failed-save-touched-destination:%s" % api,
            "detail": "%s onto an existing %d-byte file with %s raising %s (%s): %s; changed entries: %s" % (api, len(known), h["site"], h["exc"], rel, state, changed),
            "sig": {"api": api, "site": h["site"]},
        }
        _match_known(h, res)
    return res


class _Skip(Exception):
    pass


class HarnessFault(Exception):
    pass


def _run_with_fault(h, target_font, saver, exc, fired):
    from sim import world

    site = h["site"]
    if site == "compile":
        ld = sorted(t for t in target_font.tables if t != "GlyphOrder")
        if not ld:
            raise _Skip("nothing-loaded")
        t = ld[h["tk"] % len(ld)]
        with FailAt(target_font.tables[t], exc) as fa:
            try:
                saver()
                out = "ok"
            except exc:
                out = "raised"
            except Exception as e:  # the save failed for a reason of its own: still a failed save
                out = "raised-other:" + type(e).__name__
            fired[0] = fa.fired
        return out
    if site == "compressor":
        if h["flavor"] == "woff":
            from fontTools.ttLib import sfnt

            def boom(data, level=6):
                fired[0] += 1
                raise exc("injected compressor failure")

            with world.patched(sfnt, "compress", boom):
                try:
                    saver()
                    return "ok"
                except Exception:
                    return "raised"
        if h["flavor"] == "woff2":
            from fontTools.ttLib import woff2

            class B:
                MODE_FONT = getattr(woff2.brotli, "MODE_FONT", 2)
                error = woff2.brotli.error

                @staticmethod
                def compress(*a, **k):
                    fired[0] += 1
                    raise exc("injected brotli failure")

                decompress = staticmethod(woff2.brotli.decompress)

            with world.patched(woff2, "brotli", B):
                try:
                    saver()
                    return "ok"
                except Exception:
                    return "raised"
        raise _Skip("no-compressor")
    if site == "repacker":
        from fontTools.ttLib.tables import otBase

        if not any(t in target_font for t in ("GSUB", "GPOS")):
            raise _Skip("no-layout")
        for t in ("GSUB", "GPOS", "GDEF"):
            if t in target_font:
                target_font[t]
        target_font.cfg["fontTools.ttLib.tables.otBase:USE_HARFBUZZ_REPACKER"] = True

        class HB:
            RepackerError = otBase.hb.RepackerError if hasattr(otBase, "hb") else RuntimeError

            @staticmethod
            def repack_with_tag(*a, **k):
                fired[0] += 1
                raise HB.RepackerError("injected")

        with world.patched(otBase, "hb", HB), world.patched(otBase, "have_uharfbuzz", True):
            try:
                saver()
                return "ok"
            except Exception:
                return "raised"
    raise ValueError(site)


def _run_cli(h, api, srcpath, dest, exc, fired, scratch):
    """CLI wrappers that end in TTFont.save(dest). The fault is a class-level compile
    wrapper on the table class of the chosen tag (the CLI creates the font itself)."""
    from fontTools.ttLib import TTFont, getTableClass

    probe = TTFont(srcpath, lazy=True)
    tags = [t for t in probe.keys() if t != "GlyphOrder"]
    probe.close()
    prefer = [t for t in ("name", "head", "hhea", "maxp", "OS/2", "post", "cmap", "hmtx") if t in tags]
    if not prefer:
        raise _Skip("no-common-table")
    tag = prefer[h["tk"] % len(prefer)]
    cls = getTableClass(tag)
    orig = cls.__dict__.get("compile")
    inherited = cls.compile

    def compile(self_, *a, **k):
        fired[0] += 1
        raise exc("injected compile failure")

    cls.compile = compile
    try:
        try:
            if api == "ttx":
                from fontTools import ttx

                # dump first (no fault), then compile the dump onto the existing file with -f
                cls.compile = inherited if orig is None else orig
                xml = os.path.join(scratch, "dump.ttx")
                ttx.main(["-q", "-o", xml, srcpath])
                cls.compile = compile
                with open(srcpath, "rb") as f_:
                    magic = f_.read(4)
                natural = {b"OTTO": ".otf"}.get(magic, ".ttf" if magic in (b"\0\1\0\0", b"true") else None)
                if h["tk"] % 2 and natural == os.path.splitext(dest)[1]:
                    # no -o: the output name is derived from the input name (here it lands on the existing file)
                    xml2 = os.path.join(scratch, os.path.splitext(os.path.basename(dest))[0] + ".ttx")
                    os.replace(xml, xml2)
                    ttx.main(["-q", "-f", "-d", os.path.dirname(dest), xml2])
                else:
                    ttx.main(["-q", "-f", "-o", dest, xml])
            elif api == "subset":
                from fontTools import subset

                subset.main([srcpath, "--glyphs=*", "--output-file=" + dest, "--notdef-outline", "--layout-features=*"])
            elif api == "instancer":
                from fontTools.varLib import instancer

                if "fvar" not in tags:
                    raise _Skip("not-variable")
                f = TTFont(srcpath)
                ax = f["fvar"].axes[0]
                instancer.main([srcpath, "%s=%s" % (ax.axisTag, ax.defaultValue), "-o", dest, "-q"])
            return "ok"
        except _Skip:
            raise
        except (exc, SystemExit, Exception):
            return "raised"
    finally:
        if orig is None:
            try:
                del cls.compile
            except AttributeError:
                pass
        else:
            cls.compile = orig


# ---------------------------------------------------------------------------


def _match_known(h, res):
    from sim import runner

    v = res["violation"]
    for e in runner.load_known(ID):
        m = e["match"]
        if m.get("class") and m["class"] != v["class"]:
            continue
        sig = v.get("sig") or {}
        if any(sig.get(k) != val for k, val in m.get("sig", {}).items()):
            continue
        if "detail_contains" in m and m["detail_contains"] not in v.get("detail", ""):
            continue
        res["known"].append({"id": e["id"], "text": e["text"]})
        res["violation"] = None
        return


def simplify(ctx, h):
    import copy

    if h.get("kind") in ("storage",):
        if h.get("how") != "stream":
            c = copy.deepcopy(h)
            c["how"] = "stream"
            yield c
        if h.get("lazy") is not None:
            c = copy.deepcopy(h)
            c["lazy"] = None
            yield c
    if h.get("kind") in ("payload", "failsave"):
        for k, v in (("flavor", None), ("lazy", None), ("recalcBBoxes", True), ("ensure", True)):
            if k in h and h[k] != v:
                c = copy.deepcopy(h)
                c[k] = v
                yield c
    if h.get("kind") == "text":
        from props import c20_text

        yield from c20_text.simplify(ctx, h)


def vacuity(ctx, agg, per_batch, probes, faults):
    if per_batch.get("storage", {}).get("runs") and not probes.get("a.TTLibError"):
        return "no damaged image produced a TTLibError"
    return None
