"""C19 — design sources survive being written and read back.

Machine A: UFOWriter / UFOReader / GlyphSet as stateful objects over SimFS
           (optionally case-insensitive, seeded listdir order), dict reference
           model, close/reopen as restart, file-name invariants after every step.
Machine B: DesignSpaceDocument build / write / read / move histories.
Machine C: plist value trees (the serialisation layer of A).
Machine N: userNameToFileName over seeded name sequences (the clash logic alone).
"""
import copy
import io
import logging
import os
import shutil
import tempfile

from sim import prng
from sim.clock import SimClock
from sim.simfs import SimFS

ID = "C19"
LEVEL = "exploration"
RUN_TIMEOUT_S = 120
RULE = (
    "each evaluation is one seeded history on a fresh simulated file system: (A) <=16 UFOWriter/GlyphSet operations "
    "(write/delete glyphs, layers, info, kerning, groups, lib, features, data, images, contents) with close/reopen restarts, "
    "(B) a generated designspace document written, re-read, moved and rewritten, (C) a generated plist value tree dumped and "
    "loaded, (N) a generated sequence of user names mapped to file names. Values are valid by construction. Non-trivial = at "
    "least one library write was performed and read back; distinct = distinct history digest"
)
STATES_MEASURE = "distinct (sorted lower-cased file names per directory, layer map, format version) digests reached after a step"
COMPONENTS_REAL = ["fontTools.ufoLib (UFOReader/UFOWriter/GlyphSet/glifLib/filenames/validators/converters)", "fontTools.designspaceLib", "fontTools.misc.plistlib", "fontTools.misc.etree (lxml or xml.etree)", "fontTools.misc.filesystem SubFS/walk/copy helpers"]
COMPONENTS_STUB = ["file system (SimFS behind the FS seam; case-insensitive variant; seeded listdir order)", "clock for mtimes", "scratch directory for designspace paths"]
ASSUMPTIONS = [
    "generated records are valid per the UFO 3 / GLIF 2 specifications by construction; an op the library rejects ends the run and is counted, never judged",
    "file-name legality is judged against an independent statement of the UFO 'user name to file name' rules (illegal characters, reserved DOS names, no leading period, 255 characters, uniqueness ignoring case)",
    "designspace equality ignores the document's own path/filename and requires formatVersion to be monotone (the writer raises it when the content needs it)",
]
EXPECTED_PROBES = ["A.rewrite", "A.failglyph", "A.backend.zip", "A.backend.osfs", "A.reopen", "A.glyph_readback", "A.ci", "A.clash_candidate", "B.roundtrip", "C.roundtrip", "N.names"]

TIERS = {
    "quick": {"budget_s": 600, "determinism_sample": 16, "n": {"ufo": 9000, "designspace": 2500, "plist": 6000, "names": 6000}, "minimise_s": 40, "max_minimise": 4},
    "thorough": {"budget_s": 5400, "determinism_sample": 200, "n": {"ufo": 150000, "designspace": 40000, "plist": 100000, "names": 100000}, "minimise_s": 120, "max_minimise": 8},
}


def prepare(ctx):
    return {}


def batches(ctx):
    n = ctx.opts["cfg"]["n"]
    return [
        {"name": "ufo", "n": n["ufo"], "fault_free": True},
        {"name": "designspace", "n": n["designspace"], "fault_free": True},
        {"name": "plist", "n": n["plist"], "fault_free": True},
        {"name": "names", "n": n["names"], "fault_free": True},
    ]


# ---------------------------------------------------------------------------
# independent statement of the file-name rules (UFO 3 "common user name to file name algorithm")

ILLEGAL = set('"*+/:<>?[\\]|') | {chr(i) for i in range(0x20)} | {chr(0x7F)}
RESERVED = {"con", "prn", "aux", "clock$", "nul", "com1", "com2", "com3", "com4", "lpt1", "lpt2", "lpt3"}


def filename_problems(name):
    out = []
    if len(name) > 255:
        out.append("longer than 255 characters (%d)" % len(name))
    bad = sorted(set(c for c in name if c in ILLEGAL))
    if bad:
        out.append("illegal characters %r" % bad)
    if name.startswith("."):
        out.append("leading period")
    for part in name.split("."):
        if part.lower() in RESERVED:
            out.append("reserved name part %r" % part)
            break
    if name == "":
        out.append("empty")
    return out


# ---------------------------------------------------------------------------
# value generators (seeded; valid by construction)

NASTY_NAMES = ["a", "A", "b", "B", "aa", "Aa", "AA", "a_", "A_", "a.alt", "A.alt", "con", "CON", "con.alt", "a.con", "Prn", "aux", "nul", "com1", "LPT1", "clock$", ".notdef", ".a", "..", "a b", "a/b", "a:b", "a*b", "a?b", 'a"b', "a<b>", "a|b", "a\\b", "[a]", "a+b", "f_f_i", "T_H", "t_h", "é", "É", "İ", "i̇", "ß", "ẞ", "ſ", "ǅ", "ǆ", "Ǆ", "\U0001F600", "𝐀", "ａ", "á", "á", "ａ.alt", "uni0041", "A.sc", "a.sc", "dollar.taboldstyle", "x" * 250, "X" * 250, "x" * 254 + "y", "x" * 254 + "Y", "a" * 246 + ".con", "A" * 300, "é" * 200, "_", "__", "a__", "A__", "a_.alt"]
NAME_ALPHABET = list("aAbBxX._-") + ["con", "Con", "aux", "é", "É", "ß", "/", ":", "*", "\U0001F600", "1", "0"]

TEXTS = ["", "x", "Hello", "cr\rlf", "crlf\r\nx", "a\u00a0b", "zero\u200bwidth", "a<b>&c\"d'e", "üñï©ødé", "日本語", "\U0001F600", "line1\nline2", "tab\there", "  padded  ", "a]]>b", "&amp;", "<!-- c -->", "é" * 40]


RESERVED_PARTS = ["con", "aux", "nul", "prn", "com1", "lpt9", "clock$", "CON", "Aux"]


def gen_name(r):
    if r.random() < 0.12:
        # dot-separated names built around the length limit: reserved device names as parts, and a last part
        # that turns into one when the name is clipped ("auxx" -> "aux"); total length around what fits
        parts = [r.choice(RESERVED_PARTS + ["a", "b"])]
        target = r.choice([240, 244, 245, 246, 247, 248, 249, 250, 251, 255, 256])
        tail = r.choice([x + y for x in RESERVED_PARTS[:6] for y in ("", "x", "xx")] + ["z"])
        fill = max(1, target - len(parts[0]) - len(tail) - 2)
        parts.append(r.choice("ab") * fill)
        parts.append(tail)
        return ".".join(parts)
    if r.random() < 0.6:
        return r.choice(NASTY_NAMES)
    n = r.choice([1, 2, 3, 5, 8, 30, 120, 250, 256, 300])
    s = "".join(r.choice(NAME_ALPHABET) for _ in range(n))
    return s[: r.choice([n, 255, 256, 300])] or "a"


def gen_text(r):
    return r.choice(TEXTS) if r.random() < 0.7 else "".join(r.choice("ab<>&\"' \néß") for _ in range(r.randint(0, 20)))


def gen_num(r, nonneg=False):
    k = r.random()
    if k < 0.5:
        v = r.randint(0 if nonneg else -2000, 3000)
    elif k < 0.8:
        v = r.choice([0.5, 12.25, 1e-3, 1234.5678, 1e7 + 0.5, 0.1, 1 / 3]) * (1 if nonneg else r.choice([1, -1]))
    else:
        v = r.choice([0, 1, -1, 0.0, 2**31, 10**12] if not nonneg else [0, 1, 0.0, 2**31])
    return v


def gen_plist_value(r, depth=0, binary=True):
    import datetime

    if depth == 0 and r.random() < 0.06:
        # a value buried under dozens of containers (lib data written by scripts can be that deep; the writer
        # indents, and wraps base64 data to the width that is left)
        v = r.choice([bytes(r.randrange(256) for _ in range(r.randint(1, 60))), gen_text(r) or "x", 1.5, [b"\x00\x01", "y"]]) if binary else (gen_text(r) or "x")
        for _ in range(r.randint(30, 60)):
            v = [v] if r.random() < 0.5 else {gen_key(r) or "k": v}
        return v
    k = r.random()
    if depth > 3 or k < 0.55:
        c = r.randrange(8)
        if c == 0:
            return r.choice([True, False])
        if c == 1:
            return r.randint(-(2**63), 2**63 - 1) if r.random() < 0.2 else r.randint(-1000, 1000)
        if c == 2:
            return r.choice([0.0, 1.5, -2.25, 1e-7, 123456.789, 1e20, 0.1])
        if c == 3 and binary:
            return bytes(r.randrange(256) for _ in range(r.randint(0, 40)))
        if c == 4:
            return datetime.datetime(r.randint(1990, 2090), r.randint(1, 12), r.randint(1, 28), r.randint(0, 23), r.randint(0, 59), r.randint(0, 59))
        return gen_text(r)
    if k < 0.78:
        return [gen_plist_value(r, depth + 1, binary) for _ in range(r.randint(0, 4))]
    return {gen_key(r): gen_plist_value(r, depth + 1, binary) for _ in range(r.randint(0, 4))}


def gen_key(r):
    return r.choice(["k", "com.example.key", "org.robofab.x", "a b", "<k>", "é", "&", "k\"q", "x" * 30, ""]) if r.random() < 0.7 else gen_text(r).replace("\n", " ")


def gen_color(r):
    return ",".join(r.choice(["0", "1", "0.5", ".25", "0.125"]) for _ in range(4))


def gen_identifier(r, used):
    for _ in range(20):
        s = "".join(r.choice("abcXYZ0189 -_.!~") for _ in range(r.randint(1, 12)))
        if s not in used:
            used.add(s)
            return s
    return None


def gen_contours(r, v2, used):
    """List of contours; a contour is a list of point dicts. Legal by construction."""
    contours = []
    for _ in range(r.choice([0, 0, 1, 1, 2, 3])):
        pts = []
        open_ = r.random() < 0.25
        nseg = r.randint(1, 5)
        if r.random() < 0.07:
            # a closed contour of off-curve points only (implied on-curves, TrueType style)
            for _ in range(r.randint(2, 5)):
                pts.append({"pt": (gen_coord(r), gen_coord(r)), "type": None, "smooth": False, "name": None, "id": None})
            contours.append({"points": pts, "id": gen_identifier(r, used) if v2 and r.random() < 0.3 else None})
            continue
        for s in range(nseg):
            if open_ and s == 0:
                typ = "move"
                noff = 0
                if not v2 and nseg == 1:
                    # GLIF 1 reads a lone named 'move' point as an anchor (documented legacy encoding)
                    pts.append({"pt": (gen_coord(r), gen_coord(r)), "type": "move", "smooth": False, "name": None, "id": None})
                    continue
            else:
                typ = r.choice(["line", "line", "curve", "qcurve"])
                noff = {"line": 0, "curve": r.choice([2, 2, 1, 0]), "qcurve": r.randint(0, 3)}[typ]
            for _ in range(noff):
                pts.append({"pt": (gen_coord(r), gen_coord(r)), "type": None, "smooth": False, "name": gen_pname(r), "id": gen_identifier(r, used) if v2 and r.random() < 0.15 else None})
            pts.append({"pt": (gen_coord(r), gen_coord(r)), "type": typ, "smooth": typ in ("curve", "qcurve", "line") and r.random() < 0.3, "name": gen_pname(r), "id": gen_identifier(r, used) if v2 and r.random() < 0.15 else None})
        contours.append({"points": pts, "id": gen_identifier(r, used) if v2 and r.random() < 0.3 else None})
    return contours


def gen_pname(r):
    return r.choice([None, None, None, "top", "a<b", "é", "_mark"])


def gen_coord(r):
    k = r.random()
    if k < 0.7:
        return r.randint(-1000, 2000)
    if k < 0.9:
        return r.choice([0.5, -12.75, 100.125, 1e-3, 333.3333333])
    return r.choice([0, -0.0 + 0, 2**15, -(2**15), 10**6])


VARIANT = 1 << 31


def gen_glyph(seed, glifv):
    """A glyph record valid for GLIF format glifv (1 or 2). seed | VARIANT: the same record with the last
    bit of its first code point flipped - another glyph whose .glif file has exactly the same length."""
    if seed >= VARIANT:
        g = gen_glyph(seed - VARIANT, glifv)
        u = g.get("unicodes")
        if u and (u[0] ^ 1) not in u and (u[0] ^ 1) >= 0x20:
            g["unicodes"] = [u[0] ^ 1] + u[1:]
        return g
    r = prng.sub("glyph", seed)
    v2 = glifv >= 2
    used = set()
    g = {}
    if r.random() < 0.85:
        g["width"] = gen_num(r, nonneg=True)
    if r.random() < 0.3:
        g["height"] = gen_num(r, nonneg=True)
    if r.random() < 0.7:
        u = []
        for _ in range(r.choice([1, 1, 2, 3])):
            c = r.choice([r.randint(0x20, 0x7E), r.randint(0xA0, 0xFFFF), r.randint(0x10000, 0x10FFFF), 0, 0x41])
            if c not in u:
                u.append(c)
        g["unicodes"] = u
    if r.random() < 0.3:
        g["note"] = gen_text(r)
    if r.random() < 0.4:
        g["lib"] = {gen_key(r) or "k": gen_plist_value(r, 1) for _ in range(r.randint(1, 3))}
    if v2 and r.random() < 0.2:
        img = {"fileName": r.choice(["image.png", "Sketch 1.png", "é.png"])}
        if r.random() < 0.5:
            for key, dflt in (("xScale", 1), ("xyScale", 0), ("yxScale", 0), ("yScale", 1), ("xOffset", 0), ("yOffset", 0)):
                img[key] = r.choice([dflt, 0.5, -2, 10])
        if r.random() < 0.4:
            img["color"] = gen_color(r)
        g["image"] = img
    if v2 and r.random() < 0.3:
        gl = []
        for _ in range(r.randint(1, 3)):
            d = {}
            form = r.choice(["x", "y", "xya"])
            if form == "x":
                d["x"] = gen_coord(r)
            elif form == "y":
                d["y"] = gen_coord(r)
            else:
                d["x"], d["y"], d["angle"] = gen_coord(r), gen_coord(r), r.choice([0, 45, 90.5, 359.99, 360])
            if r.random() < 0.4:
                d["name"] = gen_text(r)
            if r.random() < 0.3:
                d["color"] = gen_color(r)
            if r.random() < 0.3:
                i = gen_identifier(r, used)
                if i:
                    d["identifier"] = i
            gl.append(d)
        g["guidelines"] = gl
    if v2 and r.random() < 0.35:
        an = []
        for _ in range(r.randint(1, 3)):
            d = {"x": gen_coord(r), "y": gen_coord(r)}
            if r.random() < 0.7:
                d["name"] = r.choice(["top", "_top", "é", "a<b>&"])
            if r.random() < 0.3:
                d["color"] = gen_color(r)
            if r.random() < 0.3:
                i = gen_identifier(r, used)
                if i:
                    d["identifier"] = i
            an.append(d)
        g["anchors"] = an
    g["contours"] = gen_contours(r, v2, used)
    comps = []
    for _ in range(r.choice([0, 0, 0, 1, 2])):
        base = r.choice(["a", "A", "acute", "B.alt", "é"]) if r.random() < 0.7 else gen_name(r)
        tr = (1, 0, 0, 1, 0, 0) if r.random() < 0.4 else tuple(r.choice([1, 0, 0.5, -1, 2, 100, -33.25]) for _ in range(6))
        comps.append({"base": base, "tr": tr, "id": gen_identifier(r, used) if v2 and r.random() < 0.3 else None})
    g["components"] = comps
    return g


class GObj:
    pass


def glyph_object(g):
    o = GObj()
    for k in ("width", "height", "unicodes", "note", "lib", "image", "guidelines", "anchors"):
        if k in g:
            setattr(o, k, copy.deepcopy(g[k]))
    return o


def draw_points(g):
    def draw(pen):
        for c in g["contours"]:
            if c["id"] is not None:
                pen.beginPath(identifier=c["id"])
            else:
                pen.beginPath()
            for p in c["points"]:
                kw = {}
                if p["id"] is not None:
                    kw["identifier"] = p["id"]
                pen.addPoint(p["pt"], segmentType=p["type"], smooth=p["smooth"], name=p["name"], **kw)
            pen.endPath()
        for c in g["components"]:
            if c["id"] is not None:
                pen.addComponent(c["base"], c["tr"], identifier=c["id"])
            else:
                pen.addComponent(c["base"], c["tr"])

    return draw


class CanonPen:
    """Point pen recording a canonical form (identifier None == absent)."""

    def __init__(self):
        self.value = []

    def beginPath(self, identifier=None, **kw):
        self.value.append(("beginPath", identifier))

    def endPath(self):
        self.value.append(("endPath",))

    def addPoint(self, pt, segmentType=None, smooth=False, name=None, identifier=None, **kw):
        self.value.append(("pt", (pt[0], pt[1]), segmentType, bool(smooth), name, identifier))

    def addComponent(self, base, tr, identifier=None, **kw):
        self.value.append(("comp", base, tuple(tr), identifier))


def norm_note(s):
    if s is None:
        return None
    # ufoLib re-indents notes: lines are stripped and blank lines dropped (whitespace normalisation)
    lines = [ln.strip() for ln in s.split("\n")]
    return "\n".join(ln for ln in lines if ln) or None


def expected_read(g, glifv):
    """What readGlyph should give back for a written record."""
    e = {}
    e["width"] = g.get("width", 0) or 0
    e["height"] = g.get("height", 0) or 0
    e["unicodes"] = list(g.get("unicodes", []))
    e["note"] = norm_note(g.get("note"))
    e["lib"] = g.get("lib") or None
    if glifv >= 2:
        img = g.get("image")
        e["image"] = dict(img) if img else None
        e["guidelines"] = g.get("guidelines") or None
        e["anchors"] = g.get("anchors") or None
    pen = CanonPen()
    draw_points(g)(pen)
    out = []
    for rec in pen.value:
        if glifv < 2:
            if rec[0] == "beginPath":
                rec = ("beginPath", None)
            elif rec[0] == "pt":
                rec = rec[:5] + (None,)
            elif rec[0] == "comp":
                rec = rec[:3] + (None,)
        out.append(rec)
    e["outline"] = out
    return e


def actual_read(gs, name, glifv):
    o = GObj()
    pen = CanonPen()
    gs.readGlyph(name, o, pen)
    a = {}
    a["width"] = getattr(o, "width", 0) or 0
    a["height"] = getattr(o, "height", 0) or 0
    a["unicodes"] = list(getattr(o, "unicodes", []))
    a["note"] = norm_note(getattr(o, "note", None))
    a["lib"] = getattr(o, "lib", None) or None
    if glifv >= 2:
        img = getattr(o, "image", None)
        if img:
            img = dict(img)
        a["image"] = img or None
        a["guidelines"] = getattr(o, "guidelines", None) or None
        a["anchors"] = getattr(o, "anchors", None) or None
    a["outline"] = pen.value
    return a


def cmp_image(e, a):
    if e is None or a is None:
        return e is a or (not e and not a)
    dfl = {"xScale": 1, "xyScale": 0, "yxScale": 0, "yScale": 1, "xOffset": 0, "yOffset": 0}
    ee = dict(dfl, **e)
    aa = dict(dfl, **a)
    return ee == aa


def diff_glyph(e, a):
    out = []
    for k in e:
        if k == "image":
            if not cmp_image(e[k], a.get(k)):
                out.append(k)
        elif e[k] != a.get(k):
            out.append(k)
    return out


LAYER_NAMES = ["Ab", "a_b", "A_b", "foreground", "background", "Background", "BACKGROUND", "sketches", "con", "Layer 1", "public.background", "é", "a/b", "x" * 120, "X" * 120, "x" * 260, ".hidden", "glyphs", "layer:1", "\U0001F600"]


INFO_ATTRS = ["familyName", "styleName", "unitsPerEm", "ascender", "descender", "italicAngle", "copyright", "note", "openTypeOS2WeightClass", "openTypeOS2WidthClass", "openTypeOS2Panose", "openTypeOS2Type", "postscriptBlueValues", "versionMajor", "versionMinor", "openTypeHeadCreated", "openTypeNameDesigner", "openTypeNameRecords", "guidelines", "woffMajorVersion", "woffMetadataCopyright"]


def gen_info(r, fv):
    d = {}
    pick = lambda p: r.random() < p  # noqa: E731
    if pick(0.8):
        d["familyName"] = gen_text(r) or "F"
    if pick(0.6):
        d["styleName"] = r.choice(["Regular", "Bold Italic", "é"])
    if pick(0.7):
        d["unitsPerEm"] = r.choice([1000, 2048, 16, 1000.5])
    if pick(0.5):
        d["ascender"] = gen_coord(r)
        d["descender"] = -abs(gen_coord(r))
    if pick(0.3):
        d["italicAngle"] = r.choice([0, -12.5, 9])
    if pick(0.3):
        d["copyright"] = gen_text(r)
    if pick(0.3):
        d["note"] = gen_text(r)
    if fv < 2:
        return d  # UFO 1 has its own (older) attribute set; only the common core is generated
    if pick(0.3):
        d["openTypeOS2WeightClass"] = r.choice([100, 400, 900, 1])
        d["openTypeOS2WidthClass"] = r.randint(1, 9)
    if pick(0.25):
        d["openTypeOS2Panose"] = [r.randint(0, 9) for _ in range(10)]
    if pick(0.25):
        d["openTypeOS2Type"] = sorted(r.sample([0, 1, 2, 3, 8, 9], r.randint(0, 3)))
    if pick(0.25):
        d["postscriptBlueValues"] = sorted(r.sample(range(-20, 800), r.choice([0, 2, 4, 6])))
    if pick(0.3):
        d["versionMajor"] = r.randint(0, 20)
        d["versionMinor"] = r.randint(0, 999)
    if pick(0.2):
        d["openTypeHeadCreated"] = "%04d/%02d/%02d %02d:%02d:%02d" % (r.randint(1990, 2060), r.randint(1, 12), r.randint(1, 28), r.randint(0, 23), r.randint(0, 59), r.randint(0, 59))
    if pick(0.2):
        d["openTypeNameDesigner"] = gen_text(r)
    if fv >= 3 and pick(0.25):
        d["openTypeNameRecords"] = [{"nameID": r.randint(0, 300), "platformID": 3, "encodingID": 1, "languageID": 0x409, "string": gen_text(r)}]
    if fv >= 3 and pick(0.2):
        used = set()
        d["guidelines"] = [{"x": gen_coord(r), "name": gen_text(r)}, {"y": gen_coord(r), "identifier": gen_identifier(r, used) or "gid"}]
    if fv >= 3 and pick(0.15):
        d["woffMajorVersion"] = r.randint(0, 9)
        d["woffMetadataCopyright"] = {"text": [{"text": gen_text(r) or "c", "language": "en"}]}
    return d


def gen_kerning_groups(r, fv, glyph_names):
    names = (glyph_names or []) + ["a", "A", "B.alt", "é"]
    if fv >= 3 or r.random() < 0.3:
        # (group names are free text in UFO 1/2 too: a font that already uses the UFO 3 names is valid there,
        # and the reader's up-conversion must leave such groups alone)
        g1, g2 = "public.kern1." + r.choice(["O", "é", "A B"]), "public.kern2." + r.choice(["O", "n"])
    else:
        g1, g2 = "@MMK_L_" + r.choice(["O", "A"]), "@MMK_R_" + r.choice(["O", "n"])
    groups = {g1: sorted(set(r.sample(names, min(len(names), r.randint(0, 3))))), g2: sorted(set(r.sample(names, min(len(names), r.randint(0, 3))))), r.choice(["other", "com.example.group", "é grp"]): list(dict.fromkeys(r.sample(names, min(len(names), r.randint(0, 4)))))}
    if fv >= 3:
        # a glyph may be in at most one kern1 group and one kern2 group: two groups only, so fine
        pass
    kerning = {}
    firsts = [g1] + names
    seconds = [g2] + names
    for _ in range(r.randint(0, 6)):
        kerning[(r.choice(firsts), r.choice(seconds))] = r.choice([-50, 10, 0, 12.5, -1000, 1])
    return kerning, groups


def upconvert_kerning(kerning, groups):
    """The documented UFO 1/2 -> 3 conversion a UFOReader applies: groups with the
    @MMK_L_ / @MMK_R_ prefixes (or referenced on that side of a pair) gain a copy named
    public.kern1.<name> / public.kern2.<name>, and pairs refer to the new names."""
    ren1, ren2 = {}, {}
    for g in groups:
        if g.startswith("@MMK_L_"):
            ren1[g] = "public.kern1." + g[len("@MMK_L_") :]
        if g.startswith("@MMK_R_"):
            ren2[g] = "public.kern2." + g[len("@MMK_R_") :]
    for (a, b) in kerning:
        if a in groups and a not in ren1 and not a.startswith("public.kern1."):
            ren1[a] = "public.kern1." + a
        if b in groups and b not in ren2 and not b.startswith("public.kern2."):
            ren2[b] = "public.kern2." + b
    g2 = {k: list(v) for k, v in groups.items()}
    for old, new in list(ren1.items()) + list(ren2.items()):
        g2[new] = list(groups[old])
    k2 = {(ren1.get(a, a), ren2.get(b, b)): v for (a, b), v in kerning.items()}
    return k2, g2


# ---------------------------------------------------------------------------
# generation


def generate(ctx, batch, idx):
    r = ctx.rng(batch, idx)
    if batch == "ufo":
        fv = r.choice([3, 3, 3, 2, 1])
        ops = []
        n = r.randint(2, 16)
        kinds = ["glyph"] * 8 + ["failglyph", "failglyph", "rewrite", "rewrite", "delglyph", "contents", "rebuild", "layerinfo", "info", "kerning", "lib", "features", "data", "reopen", "reopen"]
        if fv >= 3:
            kinds += ["newlayer", "newlayer", "renamelayer", "dellayer", "image", "setdefault"]
        for _ in range(n):
            k = r.choice(kinds)
            ops.append([k, r.randrange(1 << 30)])
        ops.append(["reopen", r.randrange(1 << 30)])
        return {"kind": "ufo", "ci": r.random() < 0.5, "fv": fv, "fsseed": r.randrange(1 << 30), "clash": r.random() < 0.5, "validate": r.random() < 0.9, "lxml": r.random() < 0.7, "backend": r.choice(["simfs"] * 30 + ["osfs", "zip"]), "ops": ops}
    if batch == "designspace":
        return {"kind": "designspace", "seed": r.randrange(1 << 30), "lxml": r.random() < 0.7, "hiprec": r.random() < 0.05, "fmt": r.choice([None, None, "4.0", "4.1", "5.0", "5.1"]), "ops": [[r.choice(["axis", "axis", "discrete", "mapping", "rule", "source", "source", "instance", "label", "loclabel", "vf", "lib"]), r.randrange(1 << 30)] for _ in range(r.randint(1, 14))]}
    if batch == "plist":
        return {"kind": "plist", "seed": r.randrange(1 << 30), "lxml": r.random() < 0.6, "ops": [["value", r.randrange(1 << 30)] for _ in range(r.randint(1, 4))]}
    if batch == "names":
        return {"kind": "names", "prefix": r.choice(["", "", "glyphs."]), "suffix": r.choice([".glif", ".glif", "", ".plist"]), "ops": [["name", r.randrange(1 << 30)] for _ in range(r.randint(2, 40))]}
    raise ValueError(batch)


# ---------------------------------------------------------------------------
# execution


def execute(ctx, h):
    lvl = logging.root.manager.disable
    logging.disable(logging.CRITICAL)
    try:
        from sim import world

        k = h["kind"]
        with world.etree_backend(h.get("lxml", True)):
            if k == "ufo":
                res = exec_ufo(ctx, h)
            elif k == "designspace":
                from props import c19_ds

                res = c19_ds.execute(ctx, h)
            elif k == "plist":
                res = exec_plist(ctx, h)
            elif k == "names":
                res = exec_names(ctx, h)
            else:
                raise ValueError(k)
        res.setdefault("probes", {})["etree." + ("lxml" if h.get("lxml", True) else "xml.etree")] = 1
        return res
    finally:
        logging.disable(lvl)


def _same_file_other_case(name):
    """Another glyph name whose UFO file name equals that of `name` ignoring case (upper-case letters get
    an underscore appended in file names: "A" and "a_" both want a_.glif on a case-insensitive system)."""
    return "".join(c.lower() + "_" if c != c.lower() else c for c in name)


class InjectedDrawError(RuntimeError):
    pass


class Rejected(Exception):
    pass


def _exec_ufo(ctx, h, holder):
    from fontTools.ufoLib import UFOReader, UFOWriter
    from fontTools.ufoLib.errors import UFOLibError, GlifLibError

    events, probes = [], {}
    res = {"events": events, "probes": probes, "faults": {}, "states": [], "known": [], "nontrivial": False}
    fv = h["fv"]
    glifv = 2 if fv >= 3 else 1
    clock = SimClock(start=1.6e9, regime="tick", step=1.0)
    backend = h.get("backend", "simfs")
    scratch = None

    def fsname(n):
        """Real file systems limit names in bytes, not characters: on the OSFS / zip backends user names are
        kept to short ASCII so that the operating system's own limit never enters the picture."""
        if backend == "simfs":
            return n
        return "".join(c for c in n if 32 <= ord(c) < 127)[:60] or "a"
    if backend == "simfs":
        fs = SimFS(ci=h["ci"], rng=prng.sub("listdir", h["fsseed"]), clock=clock)
        target = fs
    else:
        # the real OSFS / ZipFS+TempFS code paths of fontTools.misc.filesystem, on a scratch directory
        scratch = holder["scratch"] = tempfile.mkdtemp(prefix="verif-c19-")
        fs = None
        target = os.path.join(scratch, "Font é.ufo" if backend == "osfs" else "Font é.ufoz")
        probes["A.backend." + backend] = 1
    if h["ci"]:
        probes["A.ci"] = 1
    model = {"layers": {}, "order": [], "default": None, "info": None, "kerning": None, "groups": None, "lib": None, "features": None, "data": {}, "images": {}, "layerinfo": {}}
    state = {"w": None, "gsets": {}}

    def fail(cls, detail):
        if not res.get("violation"):
            res["violation"] = {"class": cls, "detail": detail + " [fv=%d ci=%s]" % (fv, h["ci"]), "sig": {"cls": cls}}

    def open_writer():
        kw = {"structure": "zip"} if backend == "zip" and not os.path.exists(target) else {}
        state["w"] = UFOWriter(target, formatVersion=fv, validate=h.get("validate", True), **kw)
        state["gsets"] = {}

    def gset(layer):
        """GlyphSet for a model layer name (None = default)."""
        w = state["w"]
        if layer in state["gsets"]:
            return state["gsets"][layer]
        if fv < 3:
            gs = w.getGlyphSet()
        elif layer == model["default"]:
            gs = w.getGlyphSet(layer, defaultLayer=True)
        else:
            gs = w.getGlyphSet(layer, defaultLayer=False)
        state["gsets"][layer] = gs
        return gs

    def check_invariants(step):
        # layer directories
        w = state["w"]
        dirs = list(w.layerContents.values()) if w is not None else []
        low = [d.lower() for d in dirs]
        if len(set(low)) != len(low):
            fail("layer-directory-names-collide-ignoring-case", "layer directories %r" % dirs)
        for d in dirs:
            pr = filename_problems(d)
            if pr:
                fail("illegal-layer-directory-name", "%r: %s" % (d[:60], pr))
        for layer, gs in state["gsets"].items():
            vals = list(gs.contents.values())
            lowv = [v.lower() for v in vals]
            if len(set(lowv)) != len(lowv):
                dup = sorted(v for v in vals if lowv.count(v.lower()) > 1)
                fail("glyph-file-names-collide-ignoring-case", "layer %r: %r" % (layer, [x[:40] for x in dup][:4]))
            for gname, fn in gs.contents.items():
                pr = filename_problems(fn)
                if pr:
                    fail("illegal-glyph-file-name", "glyph %r -> file %r (%d chars): %s" % (gname[:40], fn[:40], len(fn), pr))
        if fs is not None and fs.clobbered:
            fail("write-replaced-another-names-file", "on the case-insensitive file system a write to %r landed on existing %r" % (fs.clobbered[0][1][:40], fs.clobbered[0][0][:40]))
        names = sorted(k for k in fs.nodes) if fs is not None else sorted(v.lower() for gs in state["gsets"].values() for v in gs.contents.values())
        res["states"].append(prng.digest([names, sorted((str(a), str(b)) for a, b in (w.layerContents.items() if w is not None else [])), fv])[:20])

    def flush():
        w = state["w"]
        # a UFO must have its default glyph set before it is closed
        if fv >= 3 and model["default"] is None:
            do_newlayer(model, fv, prng.sub("deflayer", h["fsseed"]), default=True)
        if fv < 3:
            model["layers"].setdefault(None, {})
        gset(model["default"] if fv >= 3 else None)
        for layer, gs in state["gsets"].items():
            gs.writeContents()
        if fv >= 3:
            order = [ln for ln in model["order"] if ln in w.layerContents]
            w.writeLayerContents(order if set(order) == set(w.layerContents) else None)
        w.close()

    def verify_reopen():
        probes["A.reopen"] = probes.get("A.reopen", 0) + 1
        rd = UFOReader(target, validate=True)
        if fv >= 3:
            names = rd.getLayerNames()
            want = [ln for ln in model["order"]]
            if sorted(names) != sorted(want):
                fail("layers-lost-or-invented", "reader lists layers %r, model has %r" % (names, want))
                return
            if model["default"] is not None and rd.getDefaultLayerName() != model["default"]:
                fail("default-layer-changed", "reader default %r, model %r" % (rd.getDefaultLayerName(), model["default"]))
        for layer, glyphs in model["layers"].items():
            try:
                gs = rd.getGlyphSet(layer if fv >= 3 else None)
            except (UFOLibError, GlifLibError) as e:
                if not glyphs and layer not in state["gsets"]:
                    continue
                fail("layer-unreadable-after-reopen", "layer %r: %s" % (layer, e))
                return
            if sorted(gs.keys()) != sorted(glyphs):
                fail("glyph-set-differs-after-reopen", "layer %r: reader has %d glyphs %r, model %d %r" % (layer, len(gs.keys()), sorted(gs.keys())[:5], len(glyphs), sorted(glyphs)[:5]))
                return
            # contents.plist must be a bijection onto existing files
            vals = list(gs.contents.values())
            if len(set(vals)) != len(vals):
                fail("contents-not-injective", "layer %r" % layer)
            for gname, gseed in sorted(glyphs.items()):
                g = gen_glyph(gseed, glifv)
                try:
                    a = actual_read(gs, gname, glifv)
                except Exception as e:
                    fail("written-glyph-unreadable", "glyph %r in layer %r: %s: %s" % (gname[:40], layer, type(e).__name__, str(e)[:120]))
                    return
                e = expected_read(g, glifv)
                d = diff_glyph(e, a)
                probes["A.glyph_readback"] = probes.get("A.glyph_readback", 0) + 1
                if d:
                    fail("glyph-readback-differs:" + ",".join(d), "glyph %r layer %r seed %d: fields %s; expected %r got %r" % (gname[:30], layer, gseed, d, {k: e[k] for k in d}, {k: a.get(k) for k in d}))
                    return
            if layer in model["layerinfo"]:
                o = GObj()
                gs.readLayerInfo(o)
                # every attribute, also the ones the last write did not set: a withdrawn colour or lib must be gone
                want = {k: model["layerinfo"][layer].get(k) or None for k in ("color", "lib")}
                got = {k: getattr(o, k, None) or None for k in ("color", "lib")}
                if got != want:
                    fail("layerinfo-differs", "layer %r: %r vs %r" % (layer, got, want))
        if model["info"] is not None:
            o = GObj()
            rd.readInfo(o)
            for k, v in model["info"].items():
                if getattr(o, k, None) != v:
                    fail("fontinfo-differs:" + k, "%s: wrote %r read %r" % (k, v, getattr(o, k, None)))
                    break
            # ... and nothing else: an attribute that an earlier writeInfo set and the last one did not
            for k in INFO_ATTRS:
                if k not in model["info"] and getattr(o, k, None) not in (None, [], {}):
                    fail("fontinfo-stale-attribute:" + k, "%s was not in the last info written, the reader returns %r" % (k, getattr(o, k, None)))
                    break
        if model["kerning"] is not None:
            want_k, want_g = model["kerning"], model["groups"]
            if fv < 3:
                want_k, want_g = upconvert_kerning(want_k, want_g)
            if rd.readKerning() != want_k:
                fail("kerning-differs", "read %r expected %r" % (rd.readKerning(), want_k))
            elif rd.readGroups() != want_g:
                fail("groups-differ", "read %r expected %r" % (rd.readGroups(), want_g))
        if model["lib"] is not None and rd.readLib() != model["lib"]:
            fail("lib-differs", "read %r wrote %r" % (rd.readLib(), model["lib"]))
        if model["features"] is not None and rd.readFeatures() != model["features"]:
            fail("features-differ", "read %r wrote %r" % (rd.readFeatures()[:50], model["features"][:50]))
        for fn, data in model["data"].items():
            try:
                if rd.readData(fn) != data:
                    fail("data-file-differs", fn)
            except Exception as e:
                fail("data-file-unreadable", "%s: %s" % (fn, e))
        if fv >= 3:
            for fn, data in model["images"].items():
                try:
                    if rd.readImage(fn) != data:
                        fail("image-file-differs", fn)
                except Exception as e:
                    fail("image-file-unreadable", "%s: %s" % (fn, e))
        rd.close()

    try:
        open_writer()
        for i, (name, seed) in enumerate(h["ops"]):
            r = prng.sub("op", seed)
            w = state["w"]
            try:
                if name == "glyph":
                    layers = model["order"] if fv >= 3 else [None]
                    if not layers:
                        # the first glyph set becomes the default layer
                        layers = [do_newlayer(model, fv, r, default=True)]
                    layer = r.choice(layers)
                    gs = gset(layer)
                    glyphs = model["layers"].setdefault(layer, {})
                    pool = sorted(set(glyphs) | set(state.get("failed", [])))
                    if h.get("clash") and pool and r.random() < 0.5:
                        # a name that differs from an existing one (or one whose write failed) only by case /
                        # clash handling, or that maps to the same file name ignoring case ("A" -> A_.glif, "a_")
                        base = r.choice(pool)
                        gname = r.choice([base.upper(), base.lower(), base.swapcase(), base + "_", base[:200] + base[:60], _same_file_other_case(base)])
                        probes["A.clash_candidate"] = probes.get("A.clash_candidate", 0) + 1
                    else:
                        gname = gen_name(r)
                    gname = fsname(gname)
                    gseed = r.randrange(1 << 30)
                    g = gen_glyph(gseed, glifv)
                    gs.writeGlyph(gname, glyph_object(g), draw_points(g))
                    glyphs[gname] = gseed
                    res["nontrivial"] = True
                elif name == "failglyph":
                    # a glyph write that fails part-way: the caller's draw callback raises, or the disk is
                    # full. The operation failed, so the glyph set must be as if it had not been attempted
                    # (a new name must not stay behind in contents; a replaced glyph keeps its old data),
                    # and the names handed out afterwards stay unique ignoring case.
                    layers = [ly for ly in (model["order"] if fv >= 3 else [None]) if fv >= 3 or ly in state["gsets"] or True]
                    if layers:
                        layer = r.choice(layers)
                        gs = gset(layer)
                        glyphs = model["layers"].setdefault(layer, {})
                        pool = sorted(set(glyphs) | set(state.get("failed", [])))
                        if pool and r.random() < 0.6:
                            base = r.choice(pool)
                            gname = r.choice([base, base.upper(), base.lower(), base.swapcase(), base + "_", _same_file_other_case(base)])
                        else:
                            gname = gen_name(r)
                        gname = fsname(gname)
                        g = gen_glyph(r.randrange(1 << 30), glifv)
                        mode = r.choice(["draw", "draw", "disk"] if fs is not None else ["draw"])
                        inner = draw_points(g)

                        def failing_draw(pen):
                            if inner is not None:
                                inner(pen)
                            raise InjectedDrawError("injected: the draw callback failed")

                        raised = None
                        try:
                            if mode == "draw":
                                gs.writeGlyph(gname, glyph_object(g), failing_draw)
                            else:
                                fs.fail_next_write = True
                                gs.writeGlyph(gname, glyph_object(g), inner)
                        except InjectedDrawError as e:
                            raised = e
                        except OSError as e:
                            if "injected" not in str(e):
                                raise
                            raised = e
                        finally:
                            if fs is not None:
                                fs.fail_next_write = False
                        res["faults"]["writeGlyph." + mode] = res["faults"].get("writeGlyph." + mode, 0) + 1
                        if raised is not None:
                            probes["A.failglyph"] = probes.get("A.failglyph", 0) + 1
                            state.setdefault("failed", []).append(gname)
                            if gname not in glyphs and gname in gs:
                                fail("failed-writeGlyph-leaves-phantom-entry", "writeGlyph(%r) raised %s, yet the glyph set now lists the glyph (file %r) although no such glyph was written" % (gname[:40], type(raised).__name__, gs.contents.get(gname, "")[:40]))
                        # (when nothing raised — identical data already on disk — the glyph was simply not rewritten)
                        elif gname not in glyphs:
                            glyphs[gname] = None  # unreachable in practice: a new glyph always needs a write
                elif name == "rewrite":
                    # an existing glyph is written again: unchanged, or changed in a way that keeps the length
                    # of its file (the writer may skip the write only when the data is identical)
                    cands = [(ly, g) for ly, gl in model["layers"].items() for g in gl if gl[g] is not None]
                    if cands:
                        ly, gname = r.choice(sorted(cands, key=str))
                        old = model["layers"][ly][gname]
                        new = old if r.random() < 0.3 else (old - VARIANT if old >= VARIANT else old + VARIANT)
                        g = gen_glyph(new, glifv)
                        gset(ly).writeGlyph(gname, glyph_object(g), draw_points(g))
                        model["layers"][ly][gname] = new
                        probes["A.rewrite"] = probes.get("A.rewrite", 0) + 1
                elif name == "delglyph":
                    cands = [(ly, g) for ly, gl in model["layers"].items() for g in gl if ly in state["gsets"]]
                    if cands:
                        ly, g = r.choice(sorted(cands, key=str))
                        state["gsets"][ly].deleteGlyph(g)
                        del model["layers"][ly][g]
                elif name == "contents":
                    for gs in state["gsets"].values():
                        gs.writeContents()
                elif name == "rebuild":
                    for gs in state["gsets"].values():
                        gs.writeContents()
                        gs.rebuildContents()
                elif name == "layerinfo":
                    if state["gsets"]:
                        ly = r.choice(sorted(state["gsets"], key=str))
                        o = GObj()
                        li = {}
                        if fv >= 3:
                            if r.random() < 0.6:
                                li["color"] = gen_color(r)
                            if r.random() < 0.6:
                                li["lib"] = {"k": gen_plist_value(r, 2)}
                        for k, v in li.items():
                            setattr(o, k, v)
                        if fv >= 3:
                            state["gsets"][ly].writeLayerInfo(o)
                            model["layerinfo"][ly] = li
                elif name == "newlayer":
                    ly = do_newlayer(model, fv, r, default=model["default"] is None, fsname=fsname)
                    if ly is not None:
                        gset(ly)
                elif name == "renamelayer":
                    cands = [ly for ly in model["order"] if ly != model["default"]]
                    if cands:
                        old = r.choice(cands)
                        new = fsname(r.choice(LAYER_NAMES))
                        if r.random() < 0.3:
                            # a name whose directory would equal that of a live layer ignoring case
                            new = fsname(_same_file_other_case(r.choice(model["order"])) or new)
                        if new not in model["order"]:
                            if old in state["gsets"]:
                                state["gsets"][old].writeContents()
                            elif not model["layers"].get(old):
                                gset(old).writeContents()
                            w.renameGlyphSet(old, new)
                            state["gsets"].pop(old, None)
                            model["order"][model["order"].index(old)] = new
                            model["layers"][new] = model["layers"].pop(old, {})
                            if old in model["layerinfo"]:
                                model["layerinfo"][new] = model["layerinfo"].pop(old)
                elif name == "setdefault":
                    pass
                elif name == "dellayer":
                    cands = [ly for ly in model["order"] if ly != model["default"]]
                    if cands:
                        ly = r.choice(cands)
                        if ly not in w.layerContents:
                            gset(ly)
                        w.deleteGlyphSet(ly)
                        state["gsets"].pop(ly, None)
                        model["order"].remove(ly)
                        model["layers"].pop(ly, None)
                        model["layerinfo"].pop(ly, None)
                elif name == "info":
                    d = gen_info(r, fv)
                    o = GObj()
                    for k, v in d.items():
                        setattr(o, k, v)
                    w.writeInfo(o)
                    model["info"] = d
                    res["nontrivial"] = True
                elif name == "kerning":
                    gl = sorted(set(g for gls in model["layers"].values() for g in gls))[:6]
                    kerning, groups = gen_kerning_groups(r, fv, gl)
                    w.writeGroups(groups)
                    w.writeKerning(kerning)
                    model["kerning"], model["groups"] = kerning, groups
                    res["nontrivial"] = True
                elif name == "lib":
                    d = {gen_key(r) or "k": gen_plist_value(r, 1) for _ in range(r.randint(0, 4))}
                    if r.random() < 0.3:
                        d["public.glyphOrder"] = [gen_name(r) for _ in range(r.randint(0, 4))]
                    w.writeLib(d)
                    model["lib"] = d
                elif name == "features":
                    if fv >= 2:
                        t = "feature liga {\n  sub f i by f_i; # %s\n} liga;\n" % gen_text(r).replace("\n", " ").replace("\r", " ")  # features.fea is a text file: its newline convention is not data
                        w.writeFeatures(t)
                        model["features"] = t
                elif name == "data":
                    if fv >= 3:
                        fn = fsname(r.choice(["com.example/a.bin", "x.txt", "com.example/sub/é.dat", "A.BIN"]))
                        low = {k.lower(): k for k in model["data"]}
                        if fn.lower() in low and low[fn.lower()] != fn:
                            fn = low[fn.lower()]  # same file on a case-insensitive system: keep one spelling
                        data = bytes(r.randrange(256) for _ in range(r.randint(0, 64)))
                        w.writeData(fn, data)
                        model["data"][fn] = data
                elif name == "image":
                    fn = fsname(r.choice(["image.png", "Sketch 1.png", "é.png"]))
                    data = b"\x89PNG\r\n\x1a\n" + bytes(r.randrange(256) for _ in range(r.randint(0, 64)))
                    w.writeImage(fn, data)
                    model["images"][fn] = data
                elif name == "reopen":
                    flush()
                    check_invariants(i)
                    try:
                        verify_reopen()
                    except Exception as e:
                        # the reader refusing what the writer produced is not a rejected op
                        fail("written-ufo-unreadable:" + type(e).__name__, "reader failed on a UFO written through the public API: %s" % str(e)[:200])
                    state["w"] = None
                    open_writer()
                events.append([name, "ok"])
            except (UFOLibError, GlifLibError) as e:
                # a rejected op is a legitimate outcome; the run ends here so that nothing later is contaminated
                events.append([name, "rejected", type(e).__name__, str(e)[:80]])
                probes["A.rejected"] = 1
                probes["A.rejected." + name] = 1
                return res
            if state["w"] is not None:
                check_invariants(i)
            if res.get("violation"):
                break
    except (UFOLibError, GlifLibError) as e:
        events.append(["setup-rejected", str(e)[:80]])
        probes["A.rejected"] = 1
        return res
    if res.get("violation"):
        _match_known(h, res)
    return res


def exec_ufo(ctx, h):
    """Runs _exec_ufo and removes the scratch directory of the OSFS / zip backends."""
    holder = {}
    try:
        return _exec_ufo(ctx, h, holder)
    finally:
        if holder.get("scratch"):
            shutil.rmtree(holder["scratch"], ignore_errors=True)


def do_newlayer(model, fv, r, default=False, fsname=lambda n: n):
    if fv < 3:
        if None not in model["layers"]:
            model["layers"][None] = {}
        return None
    if default:
        name = fsname(r.choice(["public.default", "foreground", "Regular", "é"]))
        if name in model["order"]:
            return name
        model["default"] = name
    else:
        name = fsname(r.choice(LAYER_NAMES))
        if name in model["order"]:
            return name
    model["order"].append(name)
    model["layers"].setdefault(name, {})
    return name


# ---------------------------------------------------------------------------
# Machine C: plists


def _plist_eq(a, b):
    import datetime

    if isinstance(a, dict) and isinstance(b, dict):
        return a.keys() == b.keys() and all(_plist_eq(a[k], b[k]) for k in a)
    if isinstance(a, (list, tuple)) and isinstance(b, (list, tuple)):
        return len(a) == len(b) and all(_plist_eq(x, y) for x, y in zip(a, b))
    if isinstance(a, bool) or isinstance(b, bool):
        return a is b
    if isinstance(a, float) and isinstance(b, float):
        return a == b or (a != a and b != b)
    if isinstance(a, (int, float)) and isinstance(b, (int, float)):
        return a == b and isinstance(a, float) == isinstance(b, float)
    if isinstance(a, datetime.datetime):
        return a == b
    return type(a) is type(b) and a == b


def exec_plist(ctx, h):
    from fontTools.misc import plistlib
    from sim import world

    events, probes = [], {}
    res = {"events": events, "probes": probes, "faults": {}, "states": [], "known": [], "nontrivial": True}
    etree = None
    for name, seed in h["ops"]:
        r = prng.sub("plist", seed)
        v = gen_plist_value(r, 0)
        if not isinstance(v, (dict, list)) and r.random() < 0.5:
            v = {"root": v}
        kw = {}
        if r.random() < 0.3:
            kw["sort_keys"] = False
        if r.random() < 0.3:
            kw["pretty_print"] = False
        if r.random() < 0.2:
            kw["use_builtin_types"] = True
        try:
            data = plistlib.dumps(v, **kw)
            back = plistlib.loads(data)
        except Exception as e:
            res["violation"] = {"class": "plist-roundtrip-raises:" + type(e).__name__, "detail": "value %r: %s" % (repr(v)[:200], str(e)[:100]), "sig": {}}
            break
        probes["C.roundtrip"] = probes.get("C.roundtrip", 0) + 1
        events.append(prng.bdigest(data))
        res["states"].append(prng.bdigest(data))
        if not _plist_eq(v, back):
            res["violation"] = {"class": "plist-roundtrip-differs", "detail": "dumped %r, loaded %r" % (repr(v)[:300], repr(back)[:300]), "sig": {}}
            break
        # a second dump of the loaded value is byte-identical
        if plistlib.dumps(back, **kw) != data:
            res["violation"] = {"class": "plist-second-dump-differs", "detail": "value %r" % (repr(v)[:200]), "sig": {}}
            break
    return res


# ---------------------------------------------------------------------------
# Machine N: the name -> file name function over a sequence


def exec_names(ctx, h):
    from fontTools.ufoLib.filenames import userNameToFileName

    events, probes = [], {}
    res = {"events": events, "probes": probes, "faults": {}, "states": [], "known": [], "nontrivial": True}
    existing = set()
    produced = {}
    for name, seed in h["ops"]:
        r = prng.sub("name", seed)
        if produced and r.random() < 0.4:
            base = r.choice(sorted(produced))
            uname = r.choice([base.upper(), base.lower(), base.swapcase(), base + "_", base[:-1], base + base[-1:]]) or "a"
        else:
            uname = gen_name(r)
        if uname in produced:
            continue
        try:
            fn = userNameToFileName(uname, existing=existing, prefix=h["prefix"], suffix=h["suffix"])
        except Exception as e:
            from fontTools.ufoLib.filenames import NameTranslationError

            if isinstance(e, NameTranslationError):
                probes["N.translation_error"] = 1
                continue
            res["violation"] = {"class": "userNameToFileName-raises:" + type(e).__name__, "detail": "name %r: %s" % (uname[:60], e), "sig": {}}
            break
        probes["N.names"] = probes.get("N.names", 0) + 1
        events.append([prng.bdigest(uname.encode("utf-8", "surrogatepass")), prng.bdigest(fn.encode("utf-8", "surrogatepass"))])
        pr = filename_problems(fn)
        if pr:
            res["violation"] = {"class": "illegal-file-name", "detail": "userNameToFileName(%r..., prefix=%r, suffix=%r) -> %r... (%d chars): %s" % (uname[:50], h["prefix"], h["suffix"], fn[:50], len(fn), pr), "sig": {"problems": pr}}
            break
        if fn.lower() in existing:
            res["violation"] = {"class": "file-name-not-unique-ignoring-case", "detail": "%r -> %r collides with an existing name" % (uname[:50], fn[:50]), "sig": {}}
            break
        existing.add(fn.lower())
        produced[uname] = fn
    res["states"].append(prng.digest(sorted(existing))[:20])
    if res.get("violation"):
        _match_known(h, res)
    return res


def _match_known(h, res):
    from sim import runner

    v = res["violation"]
    for e in runner.load_known(ID):
        m = e["match"]
        if m.get("class") and m["class"] != v["class"]:
            continue
        if "detail_contains" in m and m["detail_contains"] not in v.get("detail", ""):
            continue
        res["known"].append({"id": e["id"], "text": e["text"]})
        res["violation"] = None
        return
