"""C16 pipeline catalogue: every pipeline the property names, run on corpus inputs, each
yielding the sha256 of what it wrote. The `replicas` batch of C16 re-runs these (and the
history runs) in fresh interpreters under other PYTHONHASHSEED values, alone and after a
prefix of other runs, and requires identical digests."""
import io
import os
import shutil
import tempfile
import warnings

from sim import corpus, prng, world

VARLIB_BUILDS = [
    ("Build", "TestFamily-"),
    ("BuildReuseNameId2", "TestFamily-"),
    ("FeatureVars", "TestFamily-"),
    ("FeatureVarsCustomTag", "TestFamily-"),
    ("FeatureVarsWholeRange", "TestFamily-"),
    ("SingleMaster", "TestFamily-"),
    ("BuildAvarSingleAxis", "TestFamily3-"),
    ("BuildAvarIdentityMaps", "TestFamily3-"),
    ("BuildAvarEmptyAxis", "TestFamily3-"),
    ("BuildAvar2", "TestFamily3-"),
    ("SparseMasters", "SparseMasters-"),
]

KINDS = ["recompile", "ttx", "ttx", "fea", "feagen", "feagen", "subset", "subset", "instance", "instance", "build", "merge", "scale", "reorder", "cffconv", "cffopt", "woff2rt", "ttxm", "otlopt", "mutator", "featvars"]


BUILD_KINDS = ["fea", "fea", "feagen", "feagen", "feagen", "subset", "subset", "build", "merge", "instance", "instance", "cffconv", "cffopt", "otlopt", "mutator", "featvars", "featvars"]


def generate(ctx, r, idx, build_only=False):
    kind = r.choice(BUILD_KINDS if build_only else KINDS)
    h = {"kind": "pipe", "pipe": kind, "seed": r.randrange(1 << 30), "ops": []}
    bins = corpus.binaries()
    if kind in ("recompile", "ttx", "subset", "scale", "reorder"):
        # binaries as they are, and fonts compiled from the corpus TTX files (they add table kinds and
        # CFF fonts without explicit FontMatrix etc. that the binaries lack)
        q = r.random()
        if q < 0.3:
            # a table kind first, a font that has it second (rare kinds: COLR, SVG, AAT, bitmaps, Graphite ...)
            bt = corpus.keys_by_tag()
            k = r.choice(bt[r.choice(sorted(bt))])
            h["input"] = k[4:] if k.startswith("bin:") else k
        elif q < 0.65:
            h["input"] = r.choice(bins)
        else:
            for _ in range(40):
                k = r.choice(corpus.ttx_files())
                if corpus.gen2("ttx:" + k) is not None:
                    h["input"] = "ttx:" + k
                    break
            else:
                h["input"] = r.choice(bins)
    if kind in ("cffconv", "cffopt", "otlopt", "woff2rt", "ttxm"):
        bt = corpus.keys_by_tag()
        want = {"cffconv": r.choice(["CFF ", "CFF ", "CFF2"]), "cffopt": "CFF ", "otlopt": "GPOS", "woff2rt": r.choice(["glyf", "glyf", "CFF "]), "ttxm": r.choice(sorted(bt) or ["glyf"])}[kind]
        if bt.get(want):
            k = r.choice(bt[want])
            h["input"] = k[4:] if k.startswith("bin:") else k
        else:
            h["input"] = r.choice(bins)
        h["want"] = want
    if kind in ("mutator", "featvars"):
        h["input"] = r.choice(_variable_fonts())
    if kind == "subset":
        h["recalc_bounds"] = r.random() < 0.5
    if kind == "feagen":
        from props import c16_feagen

        h["fea"] = c16_feagen.generate(prng.sub("feagen", h["seed"]))
        h["level"] = r.choice([0, 0, 5, 9])
    if kind == "fea":
        feas = corpus.fea_files()
        h["input"] = feas[idx % len(feas)] if build_only else r.choice(feas)
        h["level"] = r.choice([0, 0, 5, 9])
    elif kind == "instance":
        h["input"] = r.choice(_variable_fonts())
    elif kind == "build":
        h["input"] = r.choice(VARLIB_BUILDS)
    elif kind == "merge":
        h["input"] = [r.choice(bins), r.choice(bins)]
    return h


_VAR = None


def _variable_fonts():
    global _VAR
    if _VAR is None:
        from fontTools.ttLib import TTFont

        out = []
        for rel in corpus.binaries():
            try:
                f = TTFont(corpus.path(rel), lazy=True)
                if "fvar" in f and "VARC" not in f:  # instancing across VarComponent axes is not supported
                    out.append(rel)
            except Exception:
                pass
        _VAR = out
    return _VAR


_FEA_FONT = {}


def fea_font():
    if "b" not in _FEA_FONT:
        from fontTools.fontBuilder import FontBuilder
        from fontTools.ttLib.tables._g_l_y_f import Glyph

        fb = FontBuilder(1000, isTTF=True)
        # the glyph set the corpus feature files are written against (Tests/feaLib/builder_test.py makeTTFont)
        names = """
        .notdef space slash fraction semicolon period comma ampersand
        quotedblleft quotedblright quoteleft quoteright
        zero one two three four five six seven eight nine
        zero.oldstyle one.oldstyle two.oldstyle three.oldstyle
        four.oldstyle five.oldstyle six.oldstyle seven.oldstyle
        eight.oldstyle nine.oldstyle onequarter onehalf threequarters
        onesuperior twosuperior threesuperior ordfeminine ordmasculine
        A B C D E F G H I J K L M N O P Q R S T U V W X Y Z
        a b c d e f g h i j k l m n o p q r s t u v w x y z
        A.sc B.sc C.sc D.sc E.sc F.sc G.sc H.sc I.sc J.sc K.sc L.sc M.sc
        N.sc O.sc P.sc Q.sc R.sc S.sc T.sc U.sc V.sc W.sc X.sc Y.sc Z.sc
        A.alt1 A.alt2 A.alt3 B.alt1 B.alt2 B.alt3 C.alt1 C.alt2 C.alt3
        a.alt1 a.alt2 a.alt3 a.end b.alt c.mid d.alt d.mid
        e.begin e.mid e.end m.begin n.end s.end z.end
        Eng Eng.alt1 Eng.alt2 Eng.alt3
        A.swash B.swash C.swash D.swash E.swash F.swash G.swash H.swash
        I.swash J.swash K.swash L.swash M.swash N.swash O.swash P.swash
        Q.swash R.swash S.swash T.swash U.swash V.swash W.swash X.swash
        Y.swash Z.swash
        f_l c_h c_k c_s c_t f_f f_f_i f_f_l f_i o_f_f_i s_t f_i.begin
        a_n_d T_h T_h.swash germandbls ydieresis yacute breve
        grave acute dieresis macron circumflex cedilla umlaut ogonek caron
        damma hamza sukun kasratan lam_meem_jeem noon.final noon.initial
        by feature lookup sub table uni0327 uni0328 e.fina
        idotbelow idotless iogonek acutecomb brevecomb ogonekcomb dotbelowcomb
        """.split()
        names.extend("cid{:05d}".format(cid) for cid in range(800, 1001 + 1))
        fb.setupGlyphOrder(names)
        fb.setupCharacterMap({ord(n): n for n in names if len(n) == 1})
        fb.setupGlyf({n: Glyph() for n in names})
        fb.setupHorizontalMetrics({n: (500, 0) for n in names})
        fb.setupHorizontalHeader()
        fb.setupNameTable({"familyName": "V", "styleName": "R"})
        fb.setupOS2()
        fb.setupPost()
        fb.font["head"].created = fb.font["head"].modified = 3_600_000_000
        b = io.BytesIO()
        fb.font.recalcTimestamp = False
        fb.font.save(b)
        _FEA_FONT["b"] = b.getvalue()
    return _FEA_FONT["b"]


_MASTERS = {}


def masters(prefix):
    """Compiled TTX masters whose file name starts with prefix (cached per process)."""
    if prefix not in _MASTERS:
        from fontTools.ttLib import TTFont

        d = corpus.path("varLib/data/master_ttx_interpolatable_ttf")
        out = {}
        for fn in sorted(os.listdir(d)):
            if fn.startswith(prefix) and fn.endswith(".ttx"):
                f = TTFont(recalcTimestamp=False)
                f.importXML(os.path.join(d, fn))
                b = io.BytesIO()
                f.save(b)
                out[fn[:-4]] = b.getvalue()
        _MASTERS[prefix] = out
    return _MASTERS[prefix]


def _raw(inp):
    if inp.startswith("ttx:"):
        return corpus.gen2(inp)
    return corpus.raw(inp)


def _ext(inp):
    return ".otf" if _raw(inp)[:4] == b"OTTO" else ".ttf"


def _save(font):
    font.recalcTimestamp = False
    b = io.BytesIO()
    font.save(b)
    return b.getvalue()


def execute(ctx, h):
    """Returns a result dict; events carry the digest of the output or the exception signature."""
    scratch = tempfile.mkdtemp(prefix="verif-pipe-")
    res = {"events": [], "probes": {"pipe." + h["pipe"]: 1}, "states": [], "known": [], "nontrivial": True}
    try:
        with world.isolated(cwd=scratch, env={"SOURCE_DATE_EPOCH": "1700000000"}):
            warnings.simplefilter("ignore")
            try:
                out = run_pipe(h, scratch)
                res["events"].append([h["pipe"], prng.bdigest(out), len(out)])
                res["probes"]["pipe.ok"] = 1
            except Exception as e:  # a pipeline may legitimately reject an input; it must do so identically everywhere
                # (a generated feature file: only the kind of rejection, messages may print sets)
                msg = "" if h["pipe"] == "feagen" else str(e).replace(scratch, "<scratch>")[:100]
                res["events"].append([h["pipe"], "exc", type(e).__name__, msg])
                res["probes"]["pipe.exc." + h["pipe"]] = 1
    finally:
        shutil.rmtree(scratch, ignore_errors=True)
    return res


def run_pipe(h, scratch):
    from fontTools.ttLib import TTFont

    kind = h["pipe"]
    r = prng.sub("pipe", h["seed"])
    if kind == "recompile":
        f = TTFont(io.BytesIO(_raw(h["input"])), recalcTimestamp=False)
        f.ensureDecompiled()
        return _save(f)
    if kind == "ttx":
        from fontTools import ttx

        src = os.path.join(scratch, "in" + _ext(h["input"]))
        with open(src, "wb") as f:
            f.write(_raw(h["input"]))
        x = os.path.join(scratch, "d.ttx")
        ttx.main(["-q", "-o", x, src])
        o = os.path.join(scratch, "o.bin")
        ttx.main(["-q", "--no-recalc-timestamp", "-o", o, x])
        with open(o, "rb") as f:
            b = f.read()
        with open(x, "rb") as f:
            return b + f.read()
    if kind == "fea":
        from fontTools.feaLib.builder import addOpenTypeFeatures

        f = TTFont(io.BytesIO(fea_font()), recalcTimestamp=False)
        f.cfg["fontTools.otlLib.optimize.gpos:COMPRESSION_LEVEL"] = h.get("level", 0)
        addOpenTypeFeatures(f, corpus.path(h["input"]))
        return _save(f)
    if kind == "feagen":
        from fontTools.feaLib.builder import addOpenTypeFeaturesFromString

        f = TTFont(io.BytesIO(fea_font()), recalcTimestamp=False)
        f.cfg["fontTools.otlLib.optimize.gpos:COMPRESSION_LEVEL"] = h.get("level", 0)
        addOpenTypeFeaturesFromString(f, h["fea"])
        return _save(f)
    if kind == "subset":
        from fontTools import subset

        src = os.path.join(scratch, "in" + _ext(h["input"]))
        with open(src, "wb") as f:
            f.write(_raw(h["input"]))
        o = os.path.join(scratch, "o.bin")
        probe = TTFont(src, lazy=True)
        go = probe.getGlyphOrder()
        keep = [g for g in go if r.random() < h.get("keep", 0.6)] or go[:1]
        args = [src, "--output-file=" + o, "--glyphs=" + ",".join(keep[:400]), "--no-recalc-timestamp", "--notdef-outline"]
        if h.get("recalc_bounds"):
            args.append("--recalc-bounds")
        for opt in ("--layout-features=*", "--retain-gids", "--glyph-names", "--name-IDs=*", "--no-hinting", "--desubroutinize", "--passthrough-tables", "--recommended-glyphs", "--drop-tables+=DSIG", "--legacy-kern", "--symbol-cmap"):
            if r.random() < 0.3:
                args.append(opt)
        # list options edited relative to their defaults (+= / -=): the defaults must be the same for the
        # next run in the process
        for opt in ("--no-subset-tables+=GSUB,GPOS", "--no-subset-tables+=GDEF", "--no-subset-tables-=glyf", "--layout-features+=smcp,ss01", "--layout-features-=kern,liga", "--name-IDs+=7,9", "--drop-tables-=GSUB", "--hinting-tables-=fpgm", "--layout-scripts+=latn"):
            if r.random() < 0.12:
                args.append(opt)
        subset.main(args)
        with open(o, "rb") as f:
            return f.read()
    if kind == "instance":
        from fontTools.varLib import instancer

        f = TTFont(io.BytesIO(corpus.raw(h["input"])), recalcTimestamp=False)
        lim = {}
        axes = [(a.axisTag, a.minValue, a.defaultValue, a.maxValue) for a in f["fvar"].axes]
        for tag, lo, df, hi in axes:
            q = r.random()
            if q < 0.35:
                lim[tag] = r.choice([lo, df, hi, (lo + hi) / 2])
            elif q < 0.7:
                lim[tag] = (round(r.uniform(lo, df), 2), round(r.uniform(df, hi), 2))
        if not lim:
            lim = {axes[0][0]: axes[0][2]}
        g = instancer.instantiateVariableFont(f, lim, optimize=r.random() < 0.7, updateFontNames=False)
        return _save(g)
    if kind == "build":
        from fontTools import varLib

        ds_name, prefix = h["input"]
        md = os.path.join(scratch, "masters")
        os.makedirs(md)
        for name, data in masters(prefix).items():
            with open(os.path.join(md, name + ".ttf"), "wb") as f:
                f.write(data)
        ds = corpus.path("varLib/data/%s.designspace" % ds_name)
        finder = lambda s: os.path.join(md, os.path.basename(s).replace(".ufo", ".ttf"))  # noqa: E731
        vf, model, _ = varLib.build(ds, finder, optimize=r.random() < 0.7)
        return _save(vf)
    if kind == "merge":
        from fontTools.merge import Merger

        paths = []
        for i, rel in enumerate(h["input"]):
            p = os.path.join(scratch, "m%d%s" % (i, os.path.splitext(rel)[1]))
            with open(p, "wb") as f:
                f.write(corpus.raw(rel))
            paths.append(p)
        m = Merger()
        f = m.merge(paths)
        return _save(f)
    if kind == "cffconv":
        f = TTFont(io.BytesIO(_raw(h["input"])), recalcTimestamp=False)
        if "CFF " in f:
            from fontTools.cffLib.CFFToCFF2 import convertCFFToCFF2

            convertCFFToCFF2(f)
        elif "CFF2" in f:
            from fontTools.cffLib.CFF2ToCFF import convertCFF2ToCFF

            if "fvar" in f:
                from fontTools.varLib import instancer

                f = instancer.instantiateVariableFont(f, {a.axisTag: a.defaultValue for a in f["fvar"].axes})
            convertCFF2ToCFF(f)
        return _save(f)
    if kind == "cffopt":
        f = TTFont(io.BytesIO(_raw(h["input"])), recalcTimestamp=False)
        cff = f["CFF "].cff
        for step in [x for x in ("desubroutinize", "remove_hints", "remove_unused_subroutines") if r.random() < 0.6] or ["desubroutinize"]:
            getattr(cff, step)()
        if r.random() < 0.5:
            from fontTools.cffLib.width import optimizeWidths

            td = cff[cff.fontNames[0]]
            if hasattr(td, "Private") and not hasattr(td, "FDArray"):
                cs = td.CharStrings
                widths = []
                for g in sorted(cs.keys()):
                    c = cs[g]
                    c.decompile()
                    widths.append(getattr(c, "width", td.Private.defaultWidthX))
                optimizeWidths(widths)
        return _save(f)
    if kind == "woff2rt":
        from fontTools.ttLib import woff2

        src = os.path.join(scratch, "in" + _ext(h["input"]))
        with open(src, "wb") as fo:
            fo.write(_raw(h["input"]))
        w = os.path.join(scratch, "o.woff2")
        woff2.compress(src, w)
        back = os.path.join(scratch, "back.bin")
        woff2.decompress(w, back)
        with open(w, "rb") as f1, open(back, "rb") as f2:
            return f1.read() + f2.read()
    if kind == "ttxm":
        from fontTools import ttx

        src = os.path.join(scratch, "in" + _ext(h["input"]))
        with open(src, "wb") as fo:
            fo.write(_raw(h["input"]))
        probe = TTFont(src, lazy=True)
        tags = [t for t in probe.keys() if t not in ("GlyphOrder", "loca", "Gloc", "CBLC", "EBLC", "bloc")]
        pick = sorted(set(r.choice(tags) for _ in range(r.randint(1, 4))))
        x = os.path.join(scratch, "part.ttx")
        ttx.main(["-q", "-o", x] + [a for t in pick for a in ("-t", t)] + [src])
        o = os.path.join(scratch, "merged.bin")
        ttx.main(["-q", "--no-recalc-timestamp", "-m", src, "-o", o, x])
        with open(o, "rb") as f:
            return f.read()
    if kind == "otlopt":
        from fontTools.otlLib.optimize import compact

        f = TTFont(io.BytesIO(_raw(h["input"])), recalcTimestamp=False)
        if "GPOS" in f:
            compact(f, r.choice([1, 2, 5, 9]))
        return _save(f)
    if kind == "mutator":
        from fontTools.varLib import mutator

        f = TTFont(io.BytesIO(corpus.raw(h["input"])), recalcTimestamp=False)
        loc = {a.axisTag: r.choice([a.minValue, a.defaultValue, a.maxValue, (a.minValue + a.maxValue) / 2]) for a in f["fvar"].axes}
        g = mutator.instantiateVariableFont(f, loc, inplace=True, overlap=r.random() < 0.5)
        return _save(g)
    if kind == "featvars":
        from fontTools.varLib.featureVars import addFeatureVariations

        f = TTFont(io.BytesIO(corpus.raw(h["input"])), recalcTimestamp=False)
        go = f.getGlyphOrder()
        axes = [a.axisTag for a in f["fvar"].axes]
        rules = []
        for _ in range(r.randint(1, 5)):
            boxes = []
            for _ in range(r.randint(1, 3)):
                box = {}
                for t in r.sample(axes, r.randint(1, len(axes))):
                    lo = r.choice([-1.0, -0.5, 0.0, 0.25, 0.5])
                    box[t] = (lo, r.choice([x for x in (0.0, 0.25, 0.5, 0.75, 1.0) if x >= lo]))
                boxes.append(box)
            subs = {}
            for _ in range(r.randint(1, 4)):
                a_, b_ = r.choice(go), r.choice(go)
                subs[a_] = b_
            rules.append((boxes, subs))
        addFeatureVariations(f, rules, featureTag=r.choice(["rvrn", "rclt", "rvrn"]))
        return _save(f)
    if kind == "scale":
        from fontTools.ttLib.scaleUpem import scale_upem

        f = TTFont(io.BytesIO(_raw(h["input"])), recalcTimestamp=False)
        scale_upem(f, r.choice([500, 1000, 1024, 2048]))
        return _save(f)
    if kind == "reorder":
        from fontTools.ttLib.reorderGlyphs import reorderGlyphs

        f = TTFont(io.BytesIO(_raw(h["input"])), recalcTimestamp=False)
        go = f.getGlyphOrder()
        rest = list(go[1:])
        r.shuffle(rest)
        reorderGlyphs(f, [go[0]] + rest)
        return _save(f)
    raise ValueError(kind)
