"""C04 — every saved file is a valid container with consistent derived fields.

An invariant on *outputs of any operation*: each simulated run draws a workload
(recompile, edit, subset, instance, build, merge, scale, reorder, collection) and a
save configuration (flavour x reorderTables x recalcBBoxes x glyf padding x TTC
sharing x destination kind x WOFF metadata/private data) and every file written is
re-parsed by the independent reader in oracles/container.py; derived fields are
recomputed by oracles/glyf.py.
"""
import io
import logging
import os
import shutil
import struct
import tempfile
import warnings

from sim import corpus, prng, world
from sim.stream import SimWriteStream
from oracles import container, glyf as oglyf

ID = "C04"
LEVEL = "exploration"
RUN_TIMEOUT_S = 240
RULE = (
    "each evaluation is one seeded (workload, save configuration) pair: a corpus font (binary, TTX-derived or TTC member) taken "
    "through recompile / edit / subset / instance / build / merge / scale / reorder / collection assembly and saved with a seeded "
    "flavour, reorderTables, recalcBBoxes, glyf padding, TTC sharing, destination kind and WOFF extras; the written bytes are "
    "validated by the independent container reader and, where every table was recompiled with recalcBBoxes, the derived fields are "
    "recomputed. Non-trivial = a file was written and validated; distinct = distinct history digest"
)
STATES_MEASURE = "distinct (input, workload, flavour, reorderTables, recalcBBoxes, padding, destination kind) tuples"
COMPONENTS_REAL = ["fontTools.ttLib SFNTWriter / WOFF2Writer / TTCollection.save and all table compilers", "subset, instancer, varLib.build, merge, scaleUpem, reorderGlyphs as workloads", "zlib, brotli"]
COMPONENTS_STUB = ["destination streams (SimWriteStream seekable / write-only) and scratch paths", "independent container reader and derived-field recomputation as the invariant"]
ASSUMPTIONS = [
    "container rules are limited to what can be stated with certainty and is silent on every file the pinned tree writes for the corpus",
    "WOFF2 glyf/loca/hmtx reconstruction is trusted to fontTools' own reader; transformed tables are compared at content level",
    "derived fields are recomputed only for TrueType-flavoured outputs whose tables were all recompiled with recalcBBoxes=True; composites with scaled or point-matched components are exempt from the bbox recomputation",
]
EXPECTED_PROBES = ["derived.cff_hhea_checked", "session.saved", "resave", "foreign", "foreign.longloca", "woff2.loca_checked", "metrics.checked.vmtx", "validated.sfnt", "validated.woff", "validated.woff2", "validated.ttc", "derived.checked", "flavour.compared", "dest.unseekable", "padding.4", "woff.metadata"]

TIERS = {
    "quick": {"budget_s": 600, "determinism_sample": 10, "n": {"save": 2600, "pipe": 500, "ttc": 300, "session": 150}, "minimise_s": 40, "max_minimise": 3},
    "thorough": {"budget_s": 5400, "determinism_sample": 100, "n": {"save": 40000, "pipe": 8000, "ttc": 4000, "session": 3000}, "minimise_s": 120, "max_minimise": 6},
}


def prepare(ctx):
    return {"inputs": len(corpus.all_gen2_keys())}


def batches(ctx):
    n = ctx.opts["cfg"]["n"]
    return [
        {"name": "save", "n": n["save"], "fault_free": True},
        {"name": "pipe", "n": n["pipe"], "fault_free": True},
        {"name": "ttc", "n": n["ttc"], "fault_free": True},
        {"name": "session", "n": n.get("session", 0), "fault_free": True},
    ]


OPS = ["glyfshift", "glyfflat", "glyfscale", "compbase", "compnew", "cffshift", "os2stale", "hmtx", "vmtx", "headflags", "cmap", "name", "os2", "deltable", "opaque", "subset", "scale", "reorder", "instantiate", "cffwidth"]
SMALL_OPS = ["glyfshift", "glyfflat", "glyfscale", "compbase", "compnew", "cffshift", "os2stale", "hmtx", "vmtx", "headflags", "cmap", "name", "os2", "opaque"]
CUBIC = "bin:ttLib/data/dot-cubic.ttf"
VERTICAL = ["ttx:" + p for p in ("cffLib/data/TestSparseCFF2VF.ttx", "subset/data/NotdefWidthCID-Regular.ttx", "subset/data/NotoSansCJKjp-Regular.subset.ttx", "subset/data/TestCID-Regular.ttx", "subset/data/harfbuzz_repacker.ttx", "ttLib/tables/data/NotoColorEmoji.subset.index_format_3.ttx", "ttLib/tables/data/_v_h_e_a_recalc_OTF.ttx", "ttLib/tables/data/_v_h_e_a_recalc_TTF.ttx")]


def _pick(r, idx=None):
    keys = corpus.all_gen2_keys()
    for _ in range(40):
        k = keys[idx % len(keys)] if idx is not None and r.random() < 0.6 else r.choice(keys)
        idx = None
        if k.startswith("bin:") or corpus.gen2(k) is not None:
            return k
    return None


def _cfg(r):
    return {
        "flavor": r.choice([None, None, "woff", "woff2"]),
        "reorder": r.choice([True, False, None]),
        "recalcBBoxes": r.random() < 0.75,
        "padding": r.choice([None, None, 1, 2, 4]),
        "dest": r.choice(["bytesio", "unseekable", "path"]),
        "meta": r.random() < 0.3,
        "priv": r.random() < 0.3,
        "lazy": r.choice([None, True, False]),
        # WOFF2 table transforms: default (glyf+loca), none at all, or with the optional hmtx transform
        "w2t": r.choice([None, None, "none", "hmtx"]),
    }


def generate(ctx, batch, idx):
    r = ctx.rng(batch, idx)
    if batch == "save":
        k = _pick(r, idx)
        if k is None:
            return None
        ops = []
        for _ in range(r.choice([0, 0, 1, 1, 2, 3])):
            name = r.choice(OPS)
            a = {"k": r.randrange(1 << 16), "seed": r.randrange(1 << 30)}
            if name == "scale":
                a["upem"] = r.choice([500, 1000, 1024, 2048])
            if name == "opaque":
                a["tag"] = r.choice(["ZZZZ", "Xtra"])
                a["n"] = r.choice([0, 1, 3, 4, 17])
            if name == "instantiate":
                a["inplace"] = True
            ops.append([name, a])
        h = {"kind": "save", "font": k, "original": k.startswith("bin:") and r.random() < 0.5, "full": r.random() < 0.7, "cfg": _cfg(r), "ops": ops}
        if r.random() < 0.12:
            # vertical metrics are rare in the corpus: some histories are steered to the fonts that have them
            vs = [v for v in VERTICAL if corpus.gen2(v) is not None]
            if vs:
                h["font"] = r.choice(vs)
                h["original"] = False
                ops.insert(r.randrange(len(ops) + 1), ["vmtx", {"k": r.randrange(1 << 16), "seed": 0}])
                if r.random() < 0.5:
                    ops.insert(r.randrange(len(ops) + 1), ["glyfflat", {"k": r.randrange(1 << 16), "seed": 0}])
        elif r.random() < 0.1:
            # outlines off the integer grid in a CFF font, everything recalculated: boxes and extents are rounded
            # outwards wherever they are stored
            cs = sorted(v for v in corpus.keys_by_tag().get("CFF ", []) if corpus.gen2(v) is not None)
            if cs:
                h["font"] = r.choice(cs)
                h["original"] = False
                h["full"] = True
                h["cfg"]["recalcBBoxes"] = True
                for _ in range(r.choice([1, 2, 3])):
                    ops.insert(r.randrange(len(ops) + 1), ["cffshift", {"k": 2 * r.randrange(1 << 15), "seed": 0}])
        if r.random() < 0.2:
            # a file that has been through WOFF2 before carries head.flags bit 11
            ops.append(["headflags", {"k": 0, "seed": 0}])
        if r.random() < 0.25:
            # the source as another conforming writer stores it (oracles.container.foreign_variant)
            h["foreign"] = {"longloca": r.random() < 0.6, "bit11": r.random() < 0.6, "order_seed": r.choice([None, r.randrange(1 << 16)]), "loosebbox": r.choice([None, r.randrange(1 << 16)]), "compflags": r.choice([None, r.randrange(1 << 16)])}
            h["original"] = False
            if h["foreign"]["loosebbox"] is not None and r.random() < 0.5:
                # roomy boxes only survive to the writer when they are not recalculated
                h["cfg"]["recalcBBoxes"] = False
                h["cfg"]["flavor"] = r.choice([None, "woff", "woff2", "woff2"])
                h["full"] = True
        if r.random() < 0.3:
            rops = []
            for _ in range(r.choice([0, 0, 1, 2])):
                rops.append([r.choice(SMALL_OPS), {"k": r.randrange(1 << 16), "seed": r.randrange(1 << 30), "tag": "ZZZZ", "n": 4}])
            h["resave"] = {"cfg": _cfg(r), "full": r.random() < 0.6, "ops": rops, "same": r.random() < 0.4}
        return h
    if batch == "pipe":
        from props import c16_pipes

        h = c16_pipes.generate(ctx, r, idx, build_only=r.random() < 0.5)
        h["kind"] = "pipe"
        return h
    if batch == "session":
        # several fonts saved one after the other with ONE flavour-data object (as a build script does):
        # what the writer does for one font - e.g. falling back from the glyf transform for a font with cubic
        # outlines - must not leak into the next
        bt = corpus.keys_by_tag()
        ks = []
        for _ in range(r.randint(2, 4)):
            q = r.random()
            if q < 0.25 and CUBIC in corpus.all_gen2_keys():
                ks.append(CUBIC)
            elif q < 0.6 and bt.get("glyf"):
                ks.append(r.choice(bt["glyf"]))
            else:
                ks.append(_pick(r))
        if any(k is None for k in ks):
            return None
        return {"kind": "session", "fonts": ks, "flavor": r.choice(["woff2", "woff2", "woff"]), "tt": r.choice(["default", "default", "hmtx", "none"]), "meta": r.random() < 0.3, "lazy": r.choice([None, True, False]), "ops": []}
    if batch == "ttc":
        ks = [_pick(r) for _ in range(r.randint(2, 4))]
        if any(k is None for k in ks):
            return None
        h = {"kind": "ttc", "fonts": ks, "share": r.random() < 0.6, "dsig": r.choice([None, None, "none", "data"]), "cfg": _cfg(r), "ops": []}
        if r.random() < 0.4:
            # members built from one source that share table *objects* (as an editor assembling a
            # collection would) and were edited after loading
            h["fonts"] = [ks[0]] * r.randint(2, 3)
            h["objshare"] = sorted(r.sample(["hmtx", "glyf", "name", "GSUB", "GPOS", "cmap", "OS/2"], r.randint(1, 3)))
            h["ops"] = [[r.choice(["hmtx", "hmtx", "glyfshift", "name", "cmap"]), {"k": r.randrange(1 << 16), "seed": r.randrange(1 << 30), "m": r.randrange(4)}] for _ in range(r.randint(1, 3))]
        return h
    raise ValueError(batch)


# ---------------------------------------------------------------------------


def _src(key, original):
    if key.startswith("bin:") and original:
        return corpus.raw(key[4:])
    g = corpus.gen2(key)
    if g is None and key.startswith("bin:"):
        return corpus.raw(key[4:])
    return g


def save_with(font, cfg, scratch, n=[0]):
    """Save through the configured destination; returns bytes."""
    from fontTools.ttLib import sfnt

    font.flavor = cfg["flavor"]
    if cfg["flavor"] == "woff" and (cfg["meta"] or cfg["priv"]):
        fd = sfnt.WOFFFlavorData()
        if cfg["meta"]:
            fd.metaData = b'<?xml version="1.0" encoding="UTF-8"?><metadata version="1.0"><uniqueid id="verif"/></metadata>'
        if cfg["priv"]:
            fd.privData = b"private-data-\x00\x01\x02" * 3
        fd.majorVersion, fd.minorVersion = 1, 7
        font.flavorData = fd
    elif cfg["flavor"] == "woff2" and (cfg["meta"] or cfg["priv"] or cfg.get("w2t")):
        from fontTools.ttLib.woff2 import WOFF2FlavorData

        fd = WOFF2FlavorData(transformedTables={"none": [], "hmtx": ["glyf", "loca", "hmtx"]}[cfg["w2t"]]) if cfg.get("w2t") else WOFF2FlavorData()
        if cfg["meta"]:
            fd.metaData = b'<?xml version="1.0" encoding="UTF-8"?><metadata version="1.0"><uniqueid id="verif"/></metadata>'
        if cfg["priv"]:
            fd.privData = b"private-data-\x00\x01\x02" * 3
        font.flavorData = fd
    if cfg["padding"] and "glyf" in font and font.isLoaded("glyf"):
        font["glyf"].padding = cfg["padding"]
    font.recalcBBoxes = cfg["recalcBBoxes"]
    font.recalcTimestamp = False
    if cfg["dest"] == "path":
        n[0] += 1
        p = os.path.join(scratch, "out-%d.bin" % n[0])
        font.save(p, reorderTables=cfg["reorder"])
        with open(p, "rb") as f:
            return f.read()
    if cfg["dest"] == "unseekable":
        s = SimWriteStream(seekable=False)
        font.save(s, reorderTables=cfg["reorder"])
        return s.getvalue()
    s = io.BytesIO()
    font.save(s, reorderTables=cfg["reorder"])
    return s.getvalue()


def validate(data, probes, want_kind=None):
    kind, members, errs = container.validate_any(data)
    probes["validated.%s" % kind] = probes.get("validated.%s" % kind, 0) + 1
    if want_kind and kind != want_kind:
        errs = ["container kind %s, expected %s" % (kind, want_kind)] + errs
    return kind, members, errs


def execute(ctx, h):
    lvl = logging.root.manager.disable
    logging.disable(logging.CRITICAL)
    scratch = tempfile.mkdtemp(prefix="verif-c04-")
    try:
        with world.isolated(cwd=scratch):
            warnings.simplefilter("ignore")
            k = h["kind"]
            if k == "save":
                return exec_save(ctx, h, scratch)
            if k == "pipe":
                return exec_pipe(ctx, h, scratch)
            if k == "ttc":
                return exec_ttc(ctx, h, scratch)
            if k == "session":
                return exec_session(ctx, h, scratch)
            raise ValueError(k)
    finally:
        shutil.rmtree(scratch, ignore_errors=True)
        logging.disable(lvl)


def _fail(res, cls, detail, **sig):
    if not res.get("violation"):
        res["violation"] = {"class": cls, "detail": detail, "sig": sig}


def exec_save(ctx, h, scratch):
    from fontTools.ttLib import TTFont
    from props import c16

    events, probes = [], {}
    res = {"events": events, "probes": probes, "faults": {}, "states": [], "known": [], "nontrivial": False}
    src = _src(h["font"], h["original"])
    if src is None:
        return res
    if h.get("foreign"):
        fv = container.foreign_variant(src, **h["foreign"])
        if fv is not None:
            kind0, members0, errs0 = container.validate_any(fv)
            if errs0:
                raise AssertionError("foreign_variant produced an invalid file: %s" % errs0[:2])
            src = fv
            probes["foreign"] = 1
            if h["foreign"].get("loosebbox") is not None:
                probes["foreign.loosebbox"] = 1
            if h["foreign"]["longloca"] and struct.unpack_from(">h", members0[0]["head"], 50)[0] == 1 and len(members0[0].get("glyf", b"")) < 0x20000:
                probes["foreign.longloca"] = 1
    cfg = h["cfg"]
    try:
        font = TTFont(io.BytesIO(src), lazy=cfg["lazy"], recalcBBoxes=cfg["recalcBBoxes"], recalcTimestamp=False)
        if h["full"]:
            font.ensureDecompiled()
        for name, a in h["ops"]:
            font = c16.apply_edit(font, name, a)
        if h["full"]:
            font.ensureDecompiled()
    except Exception as e:
        events.append(["workload-rejected", type(e).__name__])
        probes["workload_rejected"] = 1
        return res
    out = _save_and_judge(res, font, cfg, h["full"], h, scratch, "")
    rs = h.get("resave")
    if out is not None and rs and not res.get("violation"):
        # the saved file is opened again, perhaps edited, and saved again (another flavour, padding...):
        # what a file carries over from its previous container (head.flags bit 11, loca format,
        # table order, padding) meets the next writer
        try:
            if rs.get("same"):
                # ... or the same object is edited further and saved again (what the first save computed and
                # kept must not stand in for what the second one has to compute)
                font2 = font
                probes["resave.same_object"] = 1
            else:
                font2 = TTFont(io.BytesIO(out), lazy=rs["cfg"]["lazy"], recalcBBoxes=rs["cfg"]["recalcBBoxes"], recalcTimestamp=False)
            if rs["full"]:
                font2.ensureDecompiled()
            for name, a in rs["ops"]:
                font2 = c16.apply_edit(font2, name, a)
            if rs["full"]:
                font2.ensureDecompiled()
        except Exception as e:
            events.append(["reopen-rejected", type(e).__name__])
            probes["reopen_rejected"] = 1
            return res
        probes["resave"] = 1
        _save_and_judge(res, font2, rs["cfg"], rs["full"], h, scratch, "resave:")
    if res.get("violation"):
        _known(h, res)
    return res


def _save_and_judge(res, font, cfg, full, h, scratch, stage):
    """Saves `font` as configured and judges the bytes; returns them (None when the save was refused)."""
    from fontTools.ttLib import TTFont

    events, probes = res["events"], res["probes"]
    try:
        out = save_with(font, cfg, scratch)
    except Exception as e:
        # a font the library refuses to save produces no file: nothing to validate (C01/C16's business)
        events.append([stage + "save-rejected", type(e).__name__, str(e)[:80]])
        probes["save_rejected"] = 1
        probes["save_rejected." + type(e).__name__] = 1
        return None
    res["nontrivial"] = True
    probes["dest." + cfg["dest"]] = 1
    if cfg["padding"] and "glyf" in font:
        probes["padding.%d" % cfg["padding"]] = 1
    if cfg["flavor"] == "woff" and (cfg["meta"] or cfg["priv"]):
        probes["woff.metadata"] = 1
    want = {None: "sfnt", "woff": "woff", "woff2": "woff2"}[cfg["flavor"]]
    kind, members, errs = validate(out, probes, want)
    events.append([stage, h["font"], [o[0] for o in h["ops"]], cfg["flavor"], prng.bdigest(out), len(errs)])
    res["states"].append("%s|%s|%s|%s|%s|%s|%s" % (h["font"], [o[0] for o in h["ops"]], cfg["flavor"], cfg["reorder"], cfg["recalcBBoxes"], cfg["padding"], cfg["dest"]))
    where = " [%s%s ops=%s cfg=%s full=%s original=%s]" % (stage, h["font"], [o[0] for o in h["ops"]] + ([">"] + [o[0] for o in h["resave"]["ops"]] if h.get("resave") else []), cfg, full, h["original"])
    if errs:
        _fail(res, "invalid-container:%s:%s" % (kind, errs[0].split(" ")[0]), "%s output violates container rules: %s" % (kind, errs[:4]) + where, kind=kind, rule=errs[0].split(" ")[0])
    # table order: reorderTables=True means the directory AND the data are in the recommended/sorted order
    if not errs and kind == "sfnt" and cfg["reorder"] is False and font.reader is not None:
        want_order = [t for t in font.reader.keys() if t in members[0]]
        got_order = [t for t in container.order_of(out) if t in set(want_order)]
        if want_order != got_order:
            _fail(res, "reorderTables-False-does-not-keep-source-order", "source order %s, output %s" % (want_order, got_order) + where)
    # padding: glyph offsets are multiples of the requested padding
    if not errs and kind == "sfnt" and cfg["padding"] and "glyf" in members[0] and font.isLoaded("glyf"):
        try:
            fmt, ng, offs, glyphs, e2 = oglyf.parse_glyphs(members[0])
            if any(o % cfg["padding"] for o in offs):
                _fail(res, "glyf-padding-not-honoured", "padding=%d but loca offsets %s" % (cfg["padding"], [o for o in offs if o % cfg["padding"]][:5]) + where)
        except Exception:
            pass
    # WOFF2: the glyph data the decoder reconstructs is addressed by the loca it reconstructs, in the
    # format the stored head announces (judged by the independent loca reader, whatever was loaded)
    if not errs and kind == "woff2":
        try:
            back = TTFont(io.BytesIO(out), lazy=True)
            t4 = {t: back.reader[t] for t in ("head", "maxp", "loca", "glyf")} if "glyf" in back else None
        except Exception:
            t4 = None
        if t4 is not None and len(t4["head"]) >= 54 and len(t4["maxp"]) >= 6:
            probes["woff2.loca_checked"] = probes.get("woff2.loca_checked", 0) + 1
            src_ok = True
            if font.reader is not None and not font.isLoaded("glyf"):
                # glyph data passed through: only judged when the source was consistent itself
                try:
                    src_ok = not oglyf.parse_loca({t: font.reader[t] for t in ("head", "maxp", "loca", "glyf")})[3]
                except Exception:
                    src_ok = False
            e4 = oglyf.parse_loca(t4)[3] if src_ok else []
            if e4:
                _fail(res, "woff2-decoded-loca-inconsistent-with-head", "after decoding the WOFF2: %s" % e4[:3] + where)
    tabs = members[0] if members else {}
    # metric counts: the stored hmtx/vmtx + numberOfMetrics decode to exactly the metrics that were saved
    if not errs and kind in ("sfnt", "woff"):
        for hd, mt in (("hhea", "hmtx"), ("vhea", "vmtx")):
            if mt in tabs and font.isLoaded(mt) and hasattr(font[mt], "metrics"):
                got = oglyf.read_metrics(tabs, hd, mt)
                try:
                    want = [tuple(int(round(v)) for v in font[mt].metrics[g]) for g in font.getGlyphOrder()]
                except Exception:
                    want = None
                if got is not None and want is not None:
                    probes["metrics.checked"] = probes.get("metrics.checked", 0) + 1
                    probes["metrics.checked." + mt] = probes.get("metrics.checked." + mt, 0) + 1
                    if got != want:
                        i = next((i for i, (a, b) in enumerate(zip(got, want)) if a != b), None)
                        _fail(res, "stored-metrics-differ-from-saved-object:" + mt, "%s/%s decode to %s for glyph %s, the saved object has %s" % (hd, mt, got[i] if i is not None else len(got), i, want[i] if i is not None else len(want)) + where, table=mt)
    # derived fields
    # (everything decoded, or at least the outlines of a canonical source: with recalcBBoxes every glyph is
    # then recalculated on save - also composites nobody looked at whose base glyph was edited - and the
    # tables holding font-wide extents are pulled in as dependencies)
    glyf_loaded = "glyf" in font and font.isLoaded("glyf") and not h.get("original")
    if not errs and kind in ("sfnt", "woff") and (full or glyf_loaded) and cfg["recalcBBoxes"] and all(t in tabs for t in ("glyf", "loca", "head", "maxp", "hhea", "hmtx")):
        try:
            derr = oglyf.derived(tabs, vertical="vhea" in font and font.isLoaded("vhea") and font.isLoaded("glyf"))
        except Exception as e:
            derr = ["derived-field parser failed: %s: %s" % (type(e).__name__, e)]
        probes["derived.checked"] = probes.get("derived.checked", 0) + 1
        if "vhea" in font and font.isLoaded("vhea") and font.isLoaded("glyf") and "vmtx" in tabs:
            probes["derived.vhea_checked"] = probes.get("derived.vhea_checked", 0) + 1
        if derr:
            _fail(res, "derived-field-wrong:" + derr[0].split(" ")[0], "recomputed from the saved data: %s" % derr[:3] + where, field=derr[0].split(" ")[0])
    # OS/2 first / last character index: recalculated whenever OS/2 is compiled, from the Unicode cmap
    # subtables of the saved font (decoded again from the saved file; the min / max / 0xFFFF cap is ours)
    if not errs and kind in ("sfnt", "woff") and "OS/2" in tabs and "cmap" in tabs and len(tabs["OS/2"]) >= 68 and font.isLoaded("OS/2"):
        try:
            back = TTFont(io.BytesIO(out), lazy=True)
            codes = set()
            for st in back["cmap"].tables:
                if st.isUnicode():
                    codes.update(st.cmap.keys())
        except Exception:
            codes = None
        if codes:
            want_ci = (min(0xFFFF, min(codes)), min(0xFFFF, max(codes)))
            got_ci = struct.unpack_from(">HH", tabs["OS/2"], 64)
            probes["derived.os2_char_range_checked"] = probes.get("derived.os2_char_range_checked", 0) + 1
            if tuple(got_ci) != want_ci:
                _fail(res, "derived-field-wrong:OS/2-char-range", "OS/2 usFirstCharIndex/usLastCharIndex %r, the saved cmap gives %r" % (tuple(got_ci), want_ci) + where, field="OS/2-char-range")
    # CFF fonts: the font bounding box (head, and the CFF FontBBox it is taken from) against the union of
    # the glyph bounds of the saved outlines, traced again from the saved file
    if not errs and kind in ("sfnt", "woff") and full and cfg["recalcBBoxes"] and "CFF " in tabs and "head" in tabs and font.isLoaded("CFF "):
        try:
            from fontTools.pens.boundsPen import BoundsPen

            back = TTFont(io.BytesIO(out), lazy=True)
            gs = back.getGlyphSet()
            box = None
            for gn in back.getGlyphOrder():
                bp = BoundsPen(gs)
                gs[gn].draw(bp)
                if bp.bounds is not None:
                    b_ = bp.bounds
                    box = b_ if box is None else (min(box[0], b_[0]), min(box[1], b_[1]), max(box[2], b_[2]), max(box[3], b_[3]))
            import math

            want_box = (0, 0, 0, 0) if box is None else (math.floor(box[0]), math.floor(box[1]), math.ceil(box[2]), math.ceil(box[3]))
            got_box = struct.unpack_from(">4h", tabs["head"], 36)
            # horizontal header extents: each glyph's box rounded outwards to integers (the box head and FontBBox
            # use); min(lsb), min(advance - lsb - width), max(lsb + width) with the stored hmtx values, as the format defines them
            want_hh = got_hh = None
            if "hhea" in tabs and "hmtx" in tabs and font.isLoaded("hhea") and len(tabs["hhea"]) >= 18:
                adv = oglyf.read_metrics(tabs, "hhea", "hmtx")
                order = back.getGlyphOrder()
                if adv is not None and len(adv) == len(order):
                    lsbs, rsbs, exts = [], [], []
                    for gn, (aw, _l) in zip(order, adv):
                        bp = BoundsPen(gs)
                        gs[gn].draw(bp)
                        if bp.bounds is None:
                            continue
                        w_ = math.ceil(bp.bounds[2]) - math.floor(bp.bounds[0])
                        lsbs.append(_l)
                        rsbs.append(aw - _l - w_)
                        exts.append(_l + w_)
                    want_hh = (max(a for a, _ in adv), min(lsbs), min(rsbs), max(exts)) if lsbs else (max(a for a, _ in adv), 0, 0, 0)
                    got_hh = struct.unpack_from(">Hhhh", tabs["hhea"], 10)
        except Exception:
            want_box = got_box = None
            want_hh = got_hh = None
        if want_box is not None:
            probes["derived.cff_bbox_checked"] = probes.get("derived.cff_bbox_checked", 0) + 1
            if tuple(got_box) != tuple(want_box):
                _fail(res, "derived-field-wrong:head-bbox-cff", "head bbox %r, the saved CFF outlines give %r" % (tuple(got_box), tuple(want_box)) + where, field="head-bbox-cff")
            if want_hh is not None:
                probes["derived.cff_hhea_checked"] = probes.get("derived.cff_hhea_checked", 0) + 1
                if tuple(got_hh) != tuple(want_hh) and not res.get("violation"):
                    _fail(res, "derived-field-wrong:hhea-extents-cff", "hhea advanceWidthMax/minLSB/minRSB/xMaxExtent %r, the saved CFF outlines and hmtx give %r" % (tuple(got_hh), tuple(want_hh)) + where, field="hhea-extents-cff")
    # numGlyphs agrees with hmtx/loca whatever was recalculated
    # flavour change changes no table content
    if not res.get("violation") and cfg["flavor"] is not None and full:  # with everything loaded, saving cannot change the loaded set
        try:
            cfg0 = dict(cfg, flavor=None, dest="bytesio", meta=False, priv=False)
            base = save_with(font, cfg0, scratch)
            tb = container.tables_of(base)
        except Exception as e:
            tb = None
        if tb is not None:
            probes["flavour.compared"] = probes.get("flavour.compared", 0) + 1
            if kind == "woff":
                ta = members[0]
                for t in sorted(set(ta) | set(tb)):
                    x, y = ta.get(t), tb.get(t)
                    if t == "head" and x and y:
                        x, y = x[:8] + x[12:], y[:8] + y[12:]
                    if x != y:
                        _fail(res, "flavour-changes-table-content:woff:" + t.strip(), "table %r differs between the WOFF and the plain save of the same object" % t + where, tag=t)
                        break
            elif kind == "woff2":
                fl, w2, e3, tot = container.parse_woff2(out)
                for t in sorted(set(w2) | set(tb)):
                    if t == "DSIG":
                        continue
                    if t not in w2 or t not in tb:
                        _fail(res, "flavour-changes-table-set:woff2", "table %r present in only one of WOFF2 / plain save" % t + where)
                        break
                    d, transformed = w2[t]
                    if transformed:
                        continue
                    x, y = d, tb[t]
                    if t == "head" and len(x) >= 18 and len(y) >= 18:
                        x = x[:8] + x[12:16] + bytes([x[16] & 0xF7]) + x[17:]
                        y = y[:8] + y[12:16] + bytes([y[16] & 0xF7]) + y[17:]
                    if t in ("glyf", "loca"):
                        continue  # normalised by specification even when not transformed
                    if x != y:
                        _fail(res, "flavour-changes-table-content:woff2:" + t.strip(), "untransformed table %r differs between the WOFF2 and the plain save" % t + where, tag=t)
                        break
                if not res.get("violation"):
                    # transformed glyf/hmtx: content after reconstruction equals the plain save
                    try:
                        back = TTFont(io.BytesIO(out), lazy=False)
                        plain = TTFont(io.BytesIO(base), lazy=False)
                        if "glyf" in plain:
                            for g in plain.getGlyphOrder():
                                a, b = back["glyf"][g], plain["glyf"][g]
                                if a != b:
                                    _fail(res, "woff2-glyf-content-differs", "glyph %r differs after WOFF2 reconstruction" % g + where)
                                    break
                            if back["hmtx"].metrics != plain["hmtx"].metrics:
                                _fail(res, "woff2-hmtx-content-differs", "hmtx differs after WOFF2 reconstruction" + where)
                    except Exception as e:
                        _fail(res, "woff2-output-unreadable", "%s: %s" % (type(e).__name__, str(e)[:100]) + where)
    return out


def exec_pipe(ctx, h, scratch):
    from props import c16_pipes

    events, probes = [], {}
    res = {"events": events, "probes": probes, "faults": {}, "states": [], "known": [], "nontrivial": False}
    try:
        out = c16_pipes.run_pipe(h, scratch)
    except Exception as e:
        events.append(["pipe-rejected", h["pipe"], type(e).__name__])
        probes["pipe_rejected"] = 1
        return res
    if h["pipe"] == "ttx":
        # run_pipe returns font + dump for ttx; the font comes first
        i = out.find(b"<?xml")
        out = out[:i] if i > 0 else out
    extra = None
    if h["pipe"] == "woff2rt" and out[:4] == b"wOF2" and len(out) >= 12:
        # the WOFF2 file followed by what decompressing it gave: both are outputs to validate
        n = struct.unpack_from(">L", out, 8)[0]
        n = (n + 3) & ~3 if out[n : (n + 3) & ~3].strip(b"\0") == b"" and len(out) >= ((n + 3) & ~3) and out[(n + 3) & ~3 : ((n + 3) & ~3) + 4] in (b"\0\1\0\0", b"OTTO", b"true") else n
        out, extra = out[:n], out[n:]
    res["nontrivial"] = True
    probes["pipe." + h["pipe"]] = 1
    kind, members, errs = validate(out, probes)
    if extra is not None and not errs:
        k2, m2, e2 = validate(extra, probes, "sfnt")
        if e2:
            errs = ["decompressed: " + x for x in e2]
            kind = "sfnt-from-woff2"
    events.append([h["pipe"], str(h.get("input"))[:60], prng.bdigest(out), len(errs)])
    res["states"].append("%s|%s" % (h["pipe"], h.get("input")))
    where = " [pipeline %s input=%s seed=%s]" % (h["pipe"], h.get("input"), h.get("seed"))
    if errs:
        _fail(res, "invalid-container:%s:%s" % (kind, errs[0].split(" ")[0]), "%s output of %s violates container rules: %s" % (kind, h["pipe"], errs[:4]) + where, kind=kind)
    tabs = members[0] if members else {}
    if not errs and kind == "sfnt" and (h["pipe"] in ("recompile", "instance", "build", "scale", "reorder", "fea") or (h["pipe"] == "subset" and h.get("recalc_bounds"))) and all(t in tabs for t in ("glyf", "loca", "head", "maxp", "hhea", "hmtx")):
        # these pipelines decode the whole font and recompile it with recalcBBoxes (their default)
        if h["pipe"] not in ("subset",) or True:
            try:
                derr = oglyf.derived(tabs)
            except Exception as e:
                derr = ["derived-field parser failed: %s: %s" % (type(e).__name__, e)]
            probes["derived.checked"] = probes.get("derived.checked", 0) + 1
            if derr:
                _fail(res, "derived-field-wrong:" + derr[0].split(" ")[0], "output of %s, recomputed from the saved data: %s" % (h["pipe"], derr[:3]) + where, field=derr[0].split(" ")[0], pipe=h["pipe"])
    if res.get("violation"):
        _known(h, res)
    return res


def exec_session(ctx, h, scratch):
    from fontTools.ttLib import TTFont

    events, probes = [], {}
    res = {"events": events, "probes": probes, "faults": {}, "states": [], "known": [], "nontrivial": False}
    if h["flavor"] == "woff2":
        from fontTools.ttLib.woff2 import WOFF2FlavorData

        tt = {"default": {"glyf", "loca"}, "hmtx": {"glyf", "loca", "hmtx"}, "none": set()}[h["tt"]]
        fd = WOFF2FlavorData(transformedTables=tt)
    else:
        from fontTools.ttLib.sfnt import WOFFFlavorData

        fd = WOFFFlavorData()
    if h["meta"]:
        fd.metaData = b'<?xml version="1.0" encoding="UTF-8"?><metadata version="1.0"><uniqueid id="verif"/></metadata>'
    for n_, key in enumerate(h["fonts"]):
        src = _src(key, False)
        if src is None:
            continue
        where = " [session font %d of %s, flavor=%s transforms=%s]" % (n_, h["fonts"], h["flavor"], h["tt"])
        try:
            font = TTFont(io.BytesIO(src), lazy=h["lazy"], recalcTimestamp=False)
            font.flavor = h["flavor"]
            font.flavorData = fd
            b = io.BytesIO()
            font.save(b)
            out = b.getvalue()
        except Exception as e:
            events.append(["session-save-rejected", n_, type(e).__name__])
            probes["save_rejected"] = 1
            continue
        res["nontrivial"] = True
        probes["session.saved"] = probes.get("session.saved", 0) + 1
        kind, members, errs = validate(out, probes, h["flavor"])
        events.append([key, n_, prng.bdigest(out), len(errs)])
        if errs:
            _fail(res, "invalid-container:%s:%s" % (kind, errs[0].split(" ")[0]), "%s output violates container rules: %s" % (kind, errs[:4]) + where, kind=kind)
            break
        # the file decodes to the tables of the plain save of the same font
        try:
            back = TTFont(io.BytesIO(out), lazy=False)
            plain = TTFont(io.BytesIO(src), lazy=False)
            bad = None
            if "glyf" in plain:
                for g in plain.getGlyphOrder():
                    if back["glyf"][g] != plain["glyf"][g]:
                        bad = "glyph %r differs" % g
                        break
            if bad is None and "hmtx" in plain and back["hmtx"].metrics != plain["hmtx"].metrics:
                bad = "hmtx differs"
            if bad:
                _fail(res, "flavoured-output-content-differs:" + h["flavor"], bad + where)
                break
        except Exception as e:
            _fail(res, "flavoured-output-unreadable:" + h["flavor"], "%s: %s" % (type(e).__name__, str(e)[:120]) + where)
            break
    res["states"].append("%s|%s|%s" % (h["fonts"], h["flavor"], h["tt"]))
    if res.get("violation"):
        _known(h, res)
    return res


def exec_ttc(ctx, h, scratch):
    from fontTools.ttLib import TTFont, TTCollection, newTable

    events, probes = [], {}
    res = {"events": events, "probes": probes, "faults": {}, "states": [], "known": [], "nontrivial": False}
    cfg = h["cfg"]
    try:
        fonts = []
        for k in h["fonts"]:
            f = TTFont(io.BytesIO(_src(k, False)), lazy=cfg["lazy"], recalcBBoxes=cfg["recalcBBoxes"], recalcTimestamp=False)
            fonts.append(f)
        if h.get("objshare"):
            from props import c16

            for f in fonts:
                f.ensureDecompiled()
            for name, a in h["ops"]:
                tgt = fonts[a.get("m", 0) % len(fonts)]
                c16.apply_edit(tgt, name, a)
            for f in fonts[1:]:
                for t in h["objshare"]:
                    if t in fonts[0] and t in f:
                        f[t] = fonts[0][t]
                        if t == "glyf" and "loca" in f:
                            f["loca"] = fonts[0]["loca"]
            probes["ttc.shared_objects"] = 1
        coll = TTCollection()
        coll.fonts = fonts
        if h["dsig"] == "none":
            coll.dsig = None
        elif h["dsig"] == "data":
            d = newTable("DSIG")
            d.data = b"\0\0\0\1\0\0\0\0"
            coll.dsig = d
        if cfg["dest"] == "path":
            p = os.path.join(scratch, "c.ttc")
            coll.save(p, shareTables=h["share"])
            with open(p, "rb") as f:
                out = f.read()
        elif cfg["dest"] == "unseekable":
            s = SimWriteStream(seekable=False)
            coll.save(s, shareTables=h["share"])
            out = s.getvalue()
        else:
            s = io.BytesIO()
            coll.save(s, shareTables=h["share"])
            out = s.getvalue()
    except Exception as e:
        events.append(["ttc-rejected", type(e).__name__, str(e)[:80]])
        probes["ttc_rejected"] = 1
        return res
    res["nontrivial"] = True
    kind, members, errs = validate(out, probes, "ttc")
    events.append([h["fonts"], h["share"], prng.bdigest(out), len(errs)])
    res["states"].append("ttc|%s|%s|%s" % (len(h["fonts"]), h["share"], h["dsig"]))
    where = " [fonts=%s share=%s dsig=%s dest=%s objshare=%s ops=%s]" % (h["fonts"], h["share"], h["dsig"], cfg["dest"], h.get("objshare"), [o[0] for o in h.get("ops", [])])
    if errs:
        _fail(res, "invalid-container:ttc:" + errs[0].split(" ")[0], "TTC violates container rules: %s" % errs[:4] + where, kind="ttc")
    elif len(members) != len(h["fonts"]):
        _fail(res, "ttc-member-count", "%d members written for %d fonts" % (len(members), len(h["fonts"])) + where)
    elif h.get("objshare"):
        # edited members: every member must be self-consistent (metric counts, derived fields) and decode
        # to the metrics of the object that was saved for it
        for i, m in enumerate(members):
            f = fonts[i]
            for hd, mt in (("hhea", "hmtx"), ("vhea", "vmtx")):
                if mt in m and hd in m and "maxp" in m and mt in f and hasattr(f[mt], "metrics"):
                    got = oglyf.read_metrics(m, hd, mt)
                    want = [tuple(int(round(v)) for v in f[mt].metrics[g]) for g in f.getGlyphOrder()]
                    probes["metrics.checked"] = probes.get("metrics.checked", 0) + 1
                    probes["metrics.checked." + mt] = probes.get("metrics.checked." + mt, 0) + 1
                    if got is None:
                        _fail(res, "ttc-member-metrics-inconsistent:" + mt, "member %d: %s/%s/maxp do not fit together (numberOfMetrics vs table length vs numGlyphs)" % (i, hd, mt) + where, table=mt)
                    elif got != want:
                        j = next((j for j, (a, b) in enumerate(zip(got, want)) if a != b), None)
                        _fail(res, "stored-metrics-differ-from-saved-object:" + mt, "member %d: glyph %s decodes to %s, saved object has %s" % (i, j, got[j] if j is not None else len(got), want[j] if j is not None else len(want)) + where, table=mt)
            if cfg["recalcBBoxes"] and all(t in m for t in ("glyf", "loca", "head", "maxp", "hhea", "hmtx")):
                try:
                    derr = oglyf.derived(m)
                except Exception as e:
                    derr = ["derived-field parser failed: %s: %s" % (type(e).__name__, e)]
                probes["derived.checked"] = probes.get("derived.checked", 0) + 1
                if derr:
                    _fail(res, "derived-field-wrong:" + derr[0].split(" ")[0], "TTC member %d, recomputed from the saved data: %s" % (i, derr[:3]) + where, field=derr[0].split(" ")[0])
    else:
        # each member carries the tables of its font; shared tables really are identical bytes
        for i, (k, m) in enumerate(zip(h["fonts"], members)):
            srcm = container.tables_of(_src(k, False))
            if set(srcm) != set(m):
                _fail(res, "ttc-member-table-set", "member %d has %s" % (i, sorted(set(srcm) ^ set(m))) + where)
                break
            for t in srcm:
                x, y = srcm[t], m[t]
                if t == "head":
                    x, y = x[:8] + x[12:], y[:8] + y[12:]
                if x != y:
                    _fail(res, "ttc-member-table-changed:" + t.strip(), "member %d table %r differs from its (untouched) source" % (i, t) + where, tag=t)
                    break
        if h["share"]:
            probes["ttc.shared"] = 1
    if res.get("violation"):
        _known(h, res)
    return res


def _known(h, res):
    from sim import runner

    v = res["violation"]
    for e in runner.load_known(ID):
        m = e["match"]
        if m.get("class") and m["class"] != v["class"]:
            continue
        if m.get("class_prefix") and not v["class"].startswith(m["class_prefix"]):
            continue
        sig = v.get("sig") or {}
        if any(sig.get(k) != val for k, val in m.get("sig", {}).items()):
            continue
        if "detail_contains" in m and m["detail_contains"] not in v.get("detail", ""):
            continue
        res["known"].append({"id": e["id"], "text": e["text"]})
        res["violation"] = None
        return


def simplify(ctx, h):
    import copy

    if "cfg" in h:
        for k, v in (("flavor", None), ("reorder", True), ("padding", None), ("dest", "bytesio"), ("meta", False), ("priv", False), ("lazy", None), ("recalcBBoxes", True), ("w2t", None)):
            if h["cfg"].get(k) != v:
                c = copy.deepcopy(h)
                c["cfg"][k] = v
                yield c
    if h.get("original"):
        c = copy.deepcopy(h)
        c["original"] = False
        yield c
    if h.get("foreign"):
        c = copy.deepcopy(h)
        del c["foreign"]
        yield c
        for k, v in (("longloca", False), ("bit11", False), ("order_seed", None), ("loosebbox", None), ("compflags", None)):
            if h["foreign"].get(k) != v:
                c = copy.deepcopy(h)
                c["foreign"][k] = v
                yield c
    if h.get("resave"):
        c = copy.deepcopy(h)
        del c["resave"]
        yield c
        if h["resave"].get("same"):
            c = copy.deepcopy(h)
            c["resave"]["same"] = False
            yield c
        for i in range(len(h["resave"]["ops"])):
            c = copy.deepcopy(h)
            del c["resave"]["ops"][i]
            yield c
        for k, v in (("flavor", None), ("reorder", True), ("padding", None), ("dest", "bytesio"), ("meta", False), ("priv", False), ("lazy", None), ("recalcBBoxes", True)):
            if h["resave"]["cfg"].get(k) != v:
                c = copy.deepcopy(h)
                c["resave"]["cfg"][k] = v
                yield c
