"""C06 generated workloads: layout tables built from Python dicts so that the expected
shaping is known by construction, sized to overflow 16-bit offsets at different levels."""
import io

from sim import prng
from oracles import shape as oshape

ADV = 500


def make_font(n_glyphs):
    from fontTools.fontBuilder import FontBuilder
    from fontTools.ttLib.tables._g_l_y_f import Glyph

    fb = FontBuilder(1000, isTTF=True)
    names = [".notdef"] + ["g%05d" % i for i in range(1, n_glyphs)]
    fb.setupGlyphOrder(names)
    fb.setupCharacterMap({})
    empty = Glyph()
    fb.setupGlyf({n: empty for n in names})
    fb.setupHorizontalMetrics({n: (ADV, 0) for n in names})
    fb.setupHorizontalHeader()
    fb.setupNameTable({"familyName": "G", "styleName": "R"})
    fb.setupOS2()
    fb.setupPost(keepGlyphNames=False)
    fb.font.recalcTimestamp = False
    return fb.font, names


def assemble(font, tag, lookups, feature):
    from fontTools.ttLib import newTable
    from fontTools.ttLib.tables import otTables as ot

    t = newTable(tag)
    t.table = getattr(ot, tag)()
    t.table.Version = 0x00010000
    sl = ot.ScriptList()
    sr = ot.ScriptRecord()
    sr.ScriptTag = "DFLT"
    sr.Script = ot.Script()
    ds = ot.DefaultLangSys()
    ds.ReqFeatureIndex = 0xFFFF
    ds.FeatureIndex = [0]
    ds.FeatureCount = 1
    ds.LookupOrder = None
    sr.Script.DefaultLangSys = ds
    sr.Script.LangSysRecord = []
    sr.Script.LangSysCount = 0
    sl.ScriptRecord = [sr]
    sl.ScriptCount = 1
    fl = ot.FeatureList()
    fr = ot.FeatureRecord()
    fr.FeatureTag = feature
    fr.Feature = ot.Feature()
    fr.Feature.FeatureParams = None
    fr.Feature.LookupListIndex = list(range(len(lookups)))
    fr.Feature.LookupCount = len(lookups)
    fl.FeatureRecord = [fr]
    fl.FeatureCount = 1
    ll = ot.LookupList()
    ll.Lookup = lookups
    ll.LookupCount = len(lookups)
    t.table.ScriptList, t.table.FeatureList, t.table.LookupList = sl, fl, ll
    font[tag] = t


def val(i, j, mod=1999):
    return ((i * 31 + j * 17 + 7) % mod) - mod // 2


def build(shape, size, rng):
    """Returns (font, expectation) where expectation is a callable: samples -> list of (seq, check)"""
    from fontTools.otlLib import builder as B

    if shape == "pairs":
        n = size
        font, names = make_font(n + 1)
        gm = font.getReverseGlyphMap()
        pairs = {}
        for i in range(1, n + 1):
            for j in range(1, n + 1):
                pairs[(names[i], names[j])] = (B.buildValue({"XAdvance": val(i, j)}), None)
        subtables = B.buildPairPosGlyphs(pairs, gm)
        assemble(font, "GPOS", [B.buildLookup(subtables)], "kern")

        def samples(r, k=160):
            out = []
            for _ in range(k):
                i, j = r.randint(1, n), r.randint(1, n)
                out.append(([i, j], ("adv0", ADV + val(i, j))))
            return out

        return font, samples
    if shape == "classes":
        k = size
        font, names = make_font(2 * k * 2 + 1 + 2)  # two unclassified glyphs at the end
        gm = font.getReverseGlyphMap()
        # class c1 of first glyphs: {names[1+2c], names[2+2c]}; second classes likewise in the upper half
        first = [(names[1 + 2 * c], names[2 + 2 * c]) for c in range(k)]
        base2 = 1 + 2 * k
        second = [(names[base2 + 2 * c], names[base2 + 2 * c + 1]) for c in range(k)]
        pairs = {}
        for a in range(k):
            for b in range(k):
                pairs[(first[a], second[b])] = (B.buildValue({"XAdvance": val(a, b)}), None)
        st = B.buildPairPosClassesSubtable(pairs, gm)
        # valid, and what the subsetter and TTX import leave behind: explicit class-0 entries - for a glyph
        # below the first classified one and for one above the last - in both class definitions, inserted
        # after the real entries (dict order is what a careless writer would walk)
        st.ClassDef1.classDefs[names[0]] = 0
        st.ClassDef1.classDefs[names[len(names) - 1]] = 0
        st.ClassDef2.classDefs[names[len(names) - 2]] = 0
        st.ClassDef2.classDefs[names[base2 - 1]] = 0  # the glyph just below the first one ClassDef2 classifies
        # valid but unusual: ClassDef1 classifies glyphs that the subtable's Coverage does not list
        # (as in subtables produced by a split that share one ClassDef1): such glyphs get no kerning here
        uncovered = set(first[a][1] for a in range(0, k, 7))
        st.Coverage.glyphs = [g for g in st.Coverage.glyphs if g not in uncovered]
        assemble(font, "GPOS", [B.buildLookup([st])], "kern")

        def samples(r, kk=200):
            out = []
            for _ in range(kk):
                a, b = r.randrange(k), r.randrange(k)
                n1 = first[a][r.randrange(2)]
                if r.random() < 0.3:
                    n1 = first[(a // 7) * 7][1]
                    a = (a // 7) * 7
                g1 = gm[n1]
                g2 = gm[second[b][r.randrange(2)]]
                out.append(([g1, g2], ("adv0", ADV if n1 in uncovered else ADV + val(a, b))))
            return out

        return font, samples
    if shape == "mixedpairs":
        # one lookup whose class-pair subtable (Format 2) PRECEDES a glyph-pair subtable (Format 1) that
        # lists some of the same first glyphs: the first subtable covering the first glyph decides, so the
        # class values shadow the glyph pairs; first glyphs outside the class coverage get the glyph pairs
        k = size
        font, names = make_font(4 * k + k + 1)
        gm = font.getReverseGlyphMap()
        first = [(names[1 + 2 * c], names[2 + 2 * c]) for c in range(k)]
        base2 = 1 + 2 * k
        second = [(names[base2 + 2 * c], names[base2 + 2 * c + 1]) for c in range(k)]
        extra = [names[1 + 4 * k + c] for c in range(k)]
        cpairs = {}
        for a in range(k):
            for b in range(k):
                cpairs[(first[a], second[b])] = (B.buildValue({"XAdvance": 1 + abs(val(a, b))}), None)
        st2 = B.buildPairPosClassesSubtable(cpairs, gm)
        gpairs = {}
        for a in range(0, k, 2):
            for b in range(k):
                gpairs[(first[a][0], second[b][0])] = (B.buildValue({"XAdvance": -700 - a}), None)
        for c in range(k):
            for b in range(k):
                gpairs[(extra[c], second[b][1])] = (B.buildValue({"XAdvance": -300 - c - b}), None)
        st1 = B.buildPairPosGlyphs(gpairs, gm)
        assemble(font, "GPOS", [B.buildLookup([st2] + list(st1))], "kern")

        def samples(r, kk=200):
            out = []
            for _ in range(kk):
                b = r.randrange(k)
                if r.random() < 0.6:
                    a = r.randrange(0, k, 2) if r.random() < 0.7 else r.randrange(k)
                    out.append(([gm[first[a][0]], gm[second[b][0]]], ("adv0", ADV + 1 + abs(val(a, b)))))
                else:
                    c = r.randrange(k)
                    out.append(([gm[extra[c]], gm[second[b][1]]], ("adv0", ADV - 300 - c - b)))
            return out

        return font, samples
    if shape == "foreigncov":
        # a GPOS table written by the independent builder (oracles.foreign): coverage tables that number
        # their glyphs in an order other than glyph id order, with values / pair sets indexed by them
        from fontTools.ttLib import TTFont
        from oracles import container, foreign

        base, _ = make_font(size)
        b = io.BytesIO()
        base.save(b)
        g, exp = foreign.gpos_unsorted(size, rng)
        tabs = dict(container.tables_of(b.getvalue()))
        tabs["GPOS"] = g
        font = TTFont(io.BytesIO(container.rebuild_sfnt(b.getvalue()[:4], tabs)), recalcTimestamp=False)
        font.ensureDecompiled()

        def samples(r, kk=0):
            out = []
            if exp["single"] and not exp["pair"]:
                for gid, adv in sorted(exp["single"].items()):
                    out.append(([gid, 0], ("adv0", ADV + adv)))
            elif exp["pair"] and not exp["single"]:
                for (g1, g2), v in sorted(exp["pair"].items()):
                    out.append(([g1, g2], ("adv0", ADV + v)))
            else:
                for (g1, g2), v in sorted(exp["pair"].items()):
                    out.append(([g1, g2], ("adv0", ADV + v + exp["single"].get(g1, 0))))
                for gid, adv in sorted(exp["single"].items()):
                    if not any(k[0] == gid for k in exp["pair"]):
                        out.append(([gid, 0], ("adv0", ADV + adv)))
            return out

        return font, samples
    if shape == "manylookups":
        nl = size
        ng = 260
        font, names = make_font(ng + 1)
        gm = font.getReverseGlyphMap()
        lookups = []
        for li in range(nl):
            # distinct data per lookup (no sharing between lookups): the lookup list grows past 64 KB
            mapping = {names[g]: B.buildValue({"XAdvance": val(li * 7 + 3, g * 13 + li, 1999) % 37 - 18}) for g in range(1, ng + 1)}
            lookups.append(B.buildLookup(B.buildSinglePos(mapping, gm)))
        assemble(font, "GPOS", lookups, "kern")

        def samples(r, kk=120):
            out = []
            for _ in range(kk):
                g = r.randint(1, ng)
                # a few more glyphs in the buffer keep HarfBuzz' per-buffer operation budget out of the way
                out.append(([g, 0, 0, 0, 0, 0], ("adv0", ADV + sum(val(li * 7 + 3, g * 13 + li, 1999) % 37 - 18 for li in range(nl)))))
            return out

        return font, samples
    if shape == "ligatures":
        m = size
        font, names = make_font(1 + m + m * m)
        gm = font.getReverseGlyphMap()
        mapping = {}
        for a in range(m):
            for b in range(m):
                mapping[(names[1 + a], names[1 + b])] = names[1 + m + a * m + b]
        st = B.buildLigatureSubstSubtable(mapping)
        assemble(font, "GSUB", [B.buildLookup([st])], "liga")

        def samples(r, kk=160):
            out = []
            for _ in range(kk):
                a, b = r.randrange(m), r.randrange(m)
                out.append(([1 + a, 1 + b], ("glyphs", [1 + m + a * m + b])))
            return out

        return font, samples
    if shape == "multiple":
        # MultipleSubst: n glyphs each replaced by its own sequence of `ln` glyphs (splitMultipleSubst)
        n, ln = size
        font, names = make_font(1 + n + 64)
        gm = font.getReverseGlyphMap()
        # (the first three members spell i in base 64: every sequence is distinct, nothing can be shared)
        tgt = lambda i: [1 + n + ((i // 64**j) % 64 if j < 3 else (i * 7 + j * 13) % 64) for j in range(ln)]  # noqa: E731
        mapping = {names[1 + i]: [names[t] for t in tgt(i)] for i in range(n)}
        st = B.buildMultipleSubstSubtable(mapping)
        assemble(font, "GSUB", [B.buildLookup([st])], "ccmp")

        def samples(r, kk=160):
            out = []
            for _ in range(kk):
                i = r.randrange(n)
                out.append(([1 + i], ("glyphs", tgt(i))))
            return out

        return font, samples
    if shape == "alternate":
        # AlternateSubst: n glyphs with `k` alternates each; the feature value selects one (splitAlternateSubst)
        n, k = size
        font, names = make_font(1 + n + 97)
        gm = font.getReverseGlyphMap()
        alt = lambda i, j: 1 + n + ((i // 97**j) % 97 if j < 2 else (i * 11 + j * 5) % 97)  # noqa: E731
        mapping = {names[1 + i]: [names[alt(i, j)] for j in range(k)] for i in range(n)}
        st = B.buildAlternateSubstSubtable(mapping)
        assemble(font, "GSUB", [B.buildLookup([st])], "salt")

        def samples(r, kk=160):
            out = []
            for _ in range(kk):
                i, j = r.randrange(n), r.randrange(k)
                out.append(([1 + i], ("glyphs", [alt(i, j)]), {"salt": j + 1}))
            return out

        return font, samples
    if shape == "singlepos":
        # SinglePos format 2: one full value record per glyph (splitSinglePos)
        # (a negative size: the lower half of the glyphs only has placements, the upper half advances as
        # well - the two halves of a split need different value formats)
        halves = size < 0
        n = abs(size)
        font, names = make_font(2 + n)
        gm = font.getReverseGlyphMap()
        rec = lambda i: {"XPlacement": (i * 3) % 211 - 100, "YPlacement": 0 if halves else (i * 5) % 157 - 70, "XAdvance": 0 if halves and i < n // 2 else (i * 7) % 401 - 200 or 3, "YAdvance": 0}  # noqa: E731
        mapping = {names[1 + i]: B.buildValue({k_: v for k_, v in rec(i).items()}) for i in range(n)}
        if halves:
            # one subtable for all glyphs (the builder would sort them into one subtable per value format)
            from fontTools.ttLib.tables import otTables as ot

            st = ot.SinglePos()
            st.Format = 2
            st.Coverage = B.buildCoverage([names[1 + i] for i in range(n)], gm)
            st.Value = [mapping[g] for g in st.Coverage.glyphs]
            st.ValueFormat = 0
            for v in st.Value:
                st.ValueFormat |= v.getFormat()
            st.ValueCount = len(st.Value)
            # ... followed, in the same lookup, by a catch-all subtable (one value for every glyph of the font):
            # the first subtable covering a glyph applies, so the individual values win - also for the glyphs
            # that end up in the second half of a split
            ca = ot.SinglePos()
            ca.Format = 1
            ca.Coverage = B.buildCoverage(list(names[1:]), gm)
            ca.Value = B.buildValue({"XPlacement": 500})
            ca.ValueFormat = ca.Value.getFormat()
            sts = [st, ca]
        else:
            sts = B.buildSinglePos(mapping, gm)
        assemble(font, "GPOS", [B.buildLookup(sts)], "kern")

        def samples(r, kk=160):
            out = []
            for _ in range(kk):
                i = r.randrange(n)
                v = rec(i)
                out.append(([1 + i, 0], ("pos0", (ADV + v["XAdvance"], v["XPlacement"], v["YPlacement"]))))
            if halves:
                out.append(([1 + n, 0], ("pos0", (ADV, 500, 0))))
                for i in (n // 2 - 1, n // 2, n // 2 + 1, n - 1):
                    v = rec(i)
                    out.append(([1 + i, 0], ("pos0", (ADV + v["XAdvance"], v["XPlacement"], v["YPlacement"]))))
            return out

        return font, samples
    if shape == "markbase":
        nb, nc = size
        font, names = make_font(1 + nb + nc)
        gm = font.getReverseGlyphMap()
        marks = {names[1 + nb + c]: ("c%d" % c, B.buildAnchor(10 + c, 20 + 2 * c)) for c in range(nc)}
        bases = {names[1 + b]: {"c%d" % c: B.buildAnchor(100 + b + c, 300 + (b * 7 + c) % 400) for c in range(nc)} for b in range(nb)}
        # buildMarkBasePos wants class ids
        marks2 = {g: (int(cn[1:]), a) for g, (cn, a) in marks.items()}
        bases2 = {g: {int(cn[1:]): a for cn, a in d.items()} for g, d in bases.items()}
        sts = B.buildMarkBasePos(marks2, bases2, gm)
        assemble(font, "GPOS", [B.buildLookup(sts)], "mark")

        def samples(r, kk=160):
            out = []
            for _ in range(kk):
                b, c = r.randrange(nb), r.randrange(nc)
                bx, by = 100 + b + c, 300 + (b * 7 + c) % 400
                mx, my = 10 + c, 20 + 2 * c
                out.append(([1 + b, 1 + nb + c], ("off1", (bx - mx - ADV, by - my))))
            return out

        return font, samples
    if shape == "marknull":
        # two mark-to-base lookups over the same bases, marks and anchor coordinates, whose base arrays
        # differ only in WHICH anchor slots are NULL (mirrored): serialising must keep them apart
        nb = size
        font, names = make_font(1 + nb + 2)
        gm = font.getReverseGlyphMap()
        top, bot = names[1 + nb], names[2 + nb]
        marks = {top: (0, B.buildAnchor(100, 600)), bot: (1, B.buildAnchor(100, -50))}
        l1 = {names[1 + b]: {(b % 2): B.buildAnchor(250, 500)} for b in range(nb)}
        l2 = {names[1 + b]: {1 - (b % 2): B.buildAnchor(250, 500)} for b in range(nb)}
        lookups = [B.buildLookup(B.buildMarkBasePos(dict(marks), l1, gm)), B.buildLookup(B.buildMarkBasePos(dict(marks), l2, gm))]
        assemble(font, "GPOS", lookups, "mark")

        def samples(r, kk=80):
            out = []
            for _ in range(kk):
                b, c = r.randrange(nb), r.randrange(2)
                mx, my = (100, 600) if c == 0 else (100, -50)
                out.append(([1 + b, 1 + nb + c], ("off1", (250 - mx - ADV, 500 - my))))
            return out

        return font, samples
    if shape == "unpackable":
        # one chaining subtable with three coverage tables of ~30 KB each: the third lies beyond 64 KB
        # from the subtable start and no splitting or extension can fix that
        from fontTools.ttLib.tables import otTables as ot

        ng = 60000
        font, names = make_font(ng)
        gm = font.getReverseGlyphMap()
        covs = []
        for k in range(3):
            glyphs = [names[i] for i in range(1 + k, ng, 3)]  # ~20000 glyphs, no ranges: ~40 KB each
            covs.append(B.buildCoverage(glyphs, gm))
        st = ot.ChainContextSubst()
        st.Format = 3
        st.BacktrackGlyphCount = 0
        st.BacktrackCoverage = []
        st.InputGlyphCount = 3
        st.InputCoverage = covs
        st.LookAheadGlyphCount = 0
        st.LookAheadCoverage = []
        st.SubstCount = 0
        st.SubstLookupRecord = []
        assemble(font, "GSUB", [B.buildLookup([st])], "calt")
        return font, None
    raise ValueError(shape)


def execute(ctx, h):
    from fontTools.ttLib import TTFont
    from props import c06

    events, probes, faults = [], {}, {}
    res = {"events": events, "probes": probes, "faults": faults, "states": [], "known": [], "nontrivial": False}
    cfg = h["cfg"]
    shape, size = h["shape"], h["size"]
    if isinstance(size, list):
        size = tuple(size)
    where = " [generated %s size=%s cfg=%s]" % (shape, size, cfg)
    r = prng.sub("gen", h["sseed"])
    font, samples = build(shape, size, r)
    probes["gen." + shape] = 1
    out, out2 = c06.compile_font(font, cfg, probes, faults)
    events.append([shape, size, cfg["mode"], cfg["plan"], out[:2] if isinstance(out, tuple) else prng.bdigest(out)])
    res["states"].append("%s|%s|%s|%s|%s" % (shape, size, cfg["mode"], cfg["plan"], sorted(k for k in probes if k.startswith(("state.", "overflow.")))))
    res["nontrivial"] = True
    if shape == "unpackable":
        if not isinstance(out, tuple):
            # a table came out: it must then at least be one HarfBuzz accepts and whose offsets are not wrapped:
            # re-reading it must give back the three coverages
            try:
                back = TTFont(io.BytesIO(out))
                st = back["GSUB"].table.LookupList.Lookup[0].SubTable[0]
                if hasattr(st, "ExtSubTable"):
                    st = st.ExtSubTable
                sizes = [len(c.glyphs) for c in st.InputCoverage]
                want = [len(range(1 + k, 60000, 3)) for k in range(3)]
                if sizes != want:
                    c06._fail(res, "unpackable-table-written-wrong", "no valid packing exists, yet a table was written whose coverages have %s glyphs instead of %s" % (sizes, want) + where)
                else:
                    probes["unpackable.packed_after_all"] = 1
            except Exception as e:
                c06._fail(res, "unpackable-table-written-wrong", "no error was raised and the written table cannot be read back: %s: %s" % (type(e).__name__, str(e)[:80]) + where)
        else:
            probes["unpackable.error_raised"] = 1
            probes["unpackable.error." + out[1]] = 1
        return res
    if c06._required_but_absent(cfg, out):
        probes["required_repacker_absent.raises"] = 1
        return res
    if isinstance(out, tuple):
        # An error instead of a table is allowed by the property. What is not allowed is the fault-tolerant
        # path failing where the plain pure-python path succeeds on the same table.
        probes["raised." + out[1]] = 1
        if cfg["mode"] is not False:
            font2, _ = build(shape, size, r)
            base = {"mode": False, "plan": [], "tail": "ok", "have_hb": True, "level": cfg["level"], "twice": False, "lazy": None}
            out_b, _ = c06.compile_font(font2, base, {}, {})
            if not isinstance(out_b, tuple):
                c06._fail(res, "fallback-fails-where-pure-python-succeeds:" + out[1], "compile raised %s (%s) under this configuration although the pure-python packer serialises the same table" % (out[1], out[2]) + where, exc=out[1])
            else:
                probes["raised.also_pure_python"] = 1
        return res
    for label, data in (("first", out), ("second-compile", out2)):
        if data is None or (label == "second-compile" and data == out):
            continue
        try:
            hbfont, face = oshape.make_font(data)
        except Exception as e:
            c06._fail(res, "harfbuzz-rejects-output", "%s: %s" % (type(e).__name__, e) + where)
            return res
        feats = {"kern": True, "liga": True, "mark": True, "calt": True, "ccmp": True}
        bad = None
        nchecked = 0
        for smp in samples(prng.sub("samples", h["sseed"])):
            seq, (kind, want) = smp[0], smp[1]
            got = oshape.shape(hbfont, seq, "DFLT", "dflt", dict(feats, **smp[2]) if len(smp) > 2 else feats)
            nchecked += 1
            if kind == "pos0":
                ok = (got[0][2], got[0][4], got[0][5]) == want and [g for g, *_ in got] == seq
                shown = (got[0][2], got[0][4], got[0][5])
            elif kind == "adv0":
                ok = got[0][2] == want and [g for g, *_ in got] == seq
                shown = got[0][2]
            elif kind == "glyphs":
                ok = [g for g, *_ in got] == want
                shown = [g for g, *_ in got]
            else:
                ok = len(got) == 2 and (got[1][4], got[1][5]) == want
                shown = (got[1][4], got[1][5]) if len(got) == 2 else got
            if not ok:
                bad = (seq, want, shown)
                break
        probes["shaping.nonidentity"] = probes.get("shaping.nonidentity", 0) + nchecked
        if bad:
            c06._fail(res, "generated-table-shapes-wrong:%s:%s" % (shape, label), "glyph sequence %s should give %r by construction but shapes to %r" % bad + where, seq=bad[0])
            return res
    return res
