"""C03 — TTX is a lossless representation (facet + corpus sweep).

What simulation contributes: the TTX reader is an incremental parser fed from a
stream. Import must not depend on the delivery schedule (read sizes, short reads,
chunk boundaries), on text vs binary streams, on the newline convention, or on
whether the dump is one file or a tree of src= includes.
"""
import io
import logging
import os
import re
import shutil
import struct
import tempfile

from sim import corpus, prng, world
from sim.stream import SimReadStream, SimTextReadStream
from oracles import container

ID = "C03"
LEVEL = "exploration"
RUN_TIMEOUT_S = 300
RULE = (
    "each evaluation is one corpus font dumped with seeded options (splitTables, splitGlyphs, disassembleInstructions, "
    "bitmapGlyphDataFormat, newlinestr, table selection) and imported twice: through a baseline reader and through a seeded "
    "delivery schedule (path, bytes stream, text stream, short-reading SimStream, xmlReader.BUFSIZE in {1,7,64,4096,16384}); the two "
    "imports must save to identical bytes, and every table must equal what the source object model compiles to. Non-trivial = "
    "the dump contained at least one table; distinct = distinct history digest"
)
STATES_MEASURE = "distinct (font, dump-option set, reader kind, BUFSIZE) tuples"
COMPONENTS_REAL = ["fontTools.ttLib saveXML/importXML and every table's toXML/fromXML", "fontTools.misc.xmlReader / xmlWriter", "expat"]
COMPONENTS_STUB = ["reader streams (SimReadStream / SimTextReadStream with seeded short reads)", "xmlReader.BUFSIZE knob", "scratch directory for split dumps"]
ASSUMPTIONS = [
    "inputs are the vendored corpus fonts (no generated fonts: not this technique)",
    "tables that carry free text are compared after XML white-space normalisation of their dumps when their bytes differ, as the property allows",
]
EXPECTED_PROBES = ["foreign.post", "edit.cffreals", "damage.kept_raw", "edit.emptyprog", "foreign", "foreign.VDMX", "merge.untouched_checked", "edit.reorder", "input.generated", "expat.split_text_node", "reader.short", "reader.text", "reader.path", "bufsize.1", "dump.splitTables", "dump.splitGlyphs", "newline.crlf", "lossless.tables_checked"]

TIERS = {
    "quick": {"budget_s": 600, "determinism_sample": 10, "n": {"sweep": 1500, "merge": 260}, "minimise_s": 40, "max_minimise": 3},
    "thorough": {"budget_s": 5400, "determinism_sample": 100, "n": {"sweep": 20000, "merge": 4000}, "minimise_s": 120, "max_minimise": 6},
}


N_GENERATED = 48


def _fonts():
    # corpus binaries plus small generated TrueType fonts that carry what the corpus lacks: glyph names
    # that collide once mapped to file names or that need XML escaping, and TrueType programs whose push
    # operands sit on the boundaries of their encodings
    # ... and the fonts that the corpus TTX files compile to (CID-keyed CFF, CFF2 with several font
    # dicts, AAT and bitmap tables the binaries lack), when they are recompile fixed points
    ttx = ["ttx:" + t for t in corpus.ttx_files() if isinstance(corpus.gen2("ttx:" + t), bytes)]
    # ... and the table samples embedded in the table unit tests (kinds no corpus font has)
    blobs = ["blob:" + k for k in corpus.blob_keys()]
    return corpus.binaries() + ["gen:%d" % i for i in range(N_GENERATED)] + ttx + blobs


NASTY_GLYPH_NAMES = ["None", "True", "False", "null", "nan", "0", "A/B", "A_B", "a:b", "a*b", "a_b", "x&y", "x<y", "x>y", 'q"r', "p'q", "a", "A", "Aa", "aA", "AA", "aa", "con", "CON", "Con", "aux", "nul.alt", "com1", "a.alt", "A.alt", "f_f_i", "F_F_I", "uni0041", "u1F600", "semi;colon", "per%cent", "hash#", "at@", "back\\slash", "pipe|", "br[ack]et", "plus+", "q?mark", "x" * 60, "X" * 60, "x" * 59 + "Y", "dot.", ".dot", "_", "__", "a__", "A__"]


def gen_program(r):
    """TrueType bytecode with push instructions whose operands sit on encoding boundaries."""
    words = [0x8000, 0x7FFF, 0xFFFF, 0x0000, 0x0001, 0x00FF, 0x0100, 0x8001, 0xFF00]
    out = bytearray()
    for _ in range(r.randint(1, 6)):
        k = r.random()
        if k < 0.3:
            n = r.randint(1, 8)
            out.append(0xB8 + n - 1)  # PUSHW[n]
            for _ in range(n):
                w = r.choice(words) if r.random() < 0.7 else r.randrange(1 << 16)
                out += w.to_bytes(2, "big")
            out += bytes([0x21] * n)  # POP
        elif k < 0.5:
            n = r.choice([1, 2, 9, 20])
            out += bytes([0x41, n])  # NPUSHW
            for _ in range(n):
                w = r.choice(words) if r.random() < 0.7 else r.randrange(1 << 16)
                out += w.to_bytes(2, "big")
            out += bytes([0x21] * n)
        elif k < 0.75:
            n = r.randint(1, 8)
            out.append(0xB0 + n - 1)  # PUSHB[n]
            out += bytes(r.choice([0, 1, 127, 128, 255]) for _ in range(n))
            out += bytes([0x21] * n)
        else:
            n = r.choice([1, 9, 40])
            out += bytes([0x40, n])  # NPUSHB
            out += bytes(r.choice([0, 1, 127, 128, 255]) for _ in range(n))
            out += bytes([0x21] * n)
    return bytes(out)


_GEN = {}

_LINE = """
        <sbitLineMetrics direction="%s">
          <ascender value="%d"/><descender value="0"/><widthMax value="%d"/>
          <caretSlopeNumerator value="1"/><caretSlopeDenominator value="0"/><caretOffset value="0"/>
          <minOriginSB value="0"/><minAdvanceSB value="0"/><maxBeforeBL value="%d"/><minAfterBL value="0"/>
          <pad1 value="0"/><pad2 value="0"/>
        </sbitLineMetrics>"""


def _metrics_xml(kind, h_, w_, adv):
    if kind == "Big":
        return '<BigGlyphMetrics><height value="%d"/><width value="%d"/><horiBearingX value="0"/><horiBearingY value="%d"/><horiAdvance value="%d"/><vertBearingX value="0"/><vertBearingY value="0"/><vertAdvance value="%d"/></BigGlyphMetrics>' % (h_, w_, h_, adv, adv)
    return '<SmallGlyphMetrics><height value="%d"/><width value="%d"/><BearingX value="0"/><BearingY value="%d"/><Advance value="%d"/></SmallGlyphMetrics>' % (h_, w_, h_, adv)


def gen_bitmap_ttx(r, names):
    """EBLC/EBDT for some of the glyphs: one or two strikes, every index subtable format (1-5) and the
    monochrome image formats (1, 2, 5, 6, 7), glyph images of different sizes, and - where the format has a
    metrics record in the index subtable as well as on each glyph - index metrics that differ from the glyphs'."""
    strikes_l, strikes_d = [], []
    gids = list(range(1, len(names)))
    for si in range(r.randint(1, 2)):
        ppem = r.choice([8, 12])
        start = r.randrange(1, max(2, len(names) - 4))
        count = r.randint(2, min(5, len(names) - start))
        run = gids[start - 1 : start - 1 + count]
        ifmt = r.choice([1, 2, 3, 4, 5])
        imgfmt = r.choice({1: [1, 2, 6, 7], 3: [1, 2, 6, 7], 4: [1, 2, 6, 7], 2: [5, 5, 6, 7, 1], 5: [5, 5, 6, 7, 2]}[ifmt])
        fixed = ifmt in (2, 5)
        fh, fw = r.randint(2, 8), r.randint(3, 14)
        recs = []
        for g in run:
            h_, w_ = (fh, fw) if fixed else (r.randint(1, 8), r.randint(1, 14))
            if imgfmt in (1, 6):
                nbytes = h_ * ((w_ + 7) // 8)
            else:
                nbytes = (h_ * w_ + 7) // 8
            data = bytes(r.randrange(256) for _ in range(nbytes))
            if imgfmt in (1, 6) and w_ % 8:
                # byte-aligned rows: the bits after the last pixel of a row are padding, kept zero
                rb = (w_ + 7) // 8
                keep = (0xFF << (8 - w_ % 8)) & 0xFF
                data = b"".join(data[k_ * rb : k_ * rb + rb - 1] + bytes([data[k_ * rb + rb - 1] & keep]) for k_ in range(h_))
            if imgfmt in (2, 5, 7) and (h_ * w_) % 8:
                data = data[:-1] + bytes([data[-1] & (0xFF << (8 - (h_ * w_) % 8)) & 0xFF])
            recs.append((g, h_, w_, data))
        mk = {1: "Small", 2: "Small", 5: None, 6: "Big", 7: "Big"}[imgfmt]
        msize = {None: 0, "Small": 5, "Big": 8}[mk]
        body = ""
        if fixed:
            image_size = msize + len(recs[0][3])
            # index-level metrics: the real ones when the glyphs have none of their own (format 5), otherwise
            # redundant - zeroed or different, as tools that ignore them leave them
            im = (fh, fw, fw + 1) if imgfmt == 5 else r.choice([(0, 0, 0), (fh, fw, fw + 1), (1, 1, 1)])
            body += '<imageSize value="%d"/>%s' % (image_size, _metrics_xml("Big", *im))
        for g, h_, w_, data in recs:
            body += '<glyphLoc id="%d" name=%s/>' % (g, _xml_attr(names[g]))
        strikes_l.append('<strike index="%d"><bitmapSizeTable>%s%s<colorRef value="0"/><startGlyphIndex value="%d"/><endGlyphIndex value="%d"/><ppemX value="%d"/><ppemY value="%d"/><bitDepth value="1"/><flags value="1"/></bitmapSizeTable><eblc_index_sub_table_%d imageFormat="%d" firstGlyphIndex="%d" lastGlyphIndex="%d">%s</eblc_index_sub_table_%d></strike>' % (si, _LINE % ("hori", ppem, 14, ppem), _LINE % ("vert", ppem, 14, ppem), run[0], run[-1], ppem, ppem, ifmt, imgfmt, run[0], run[-1], body, ifmt))
        glyphs_xml = ""
        for g, h_, w_, data in recs:
            glyphs_xml += '<ebdt_bitmap_format_%d name=%s>%s<rawimagedata>%s</rawimagedata></ebdt_bitmap_format_%d>' % (imgfmt, _xml_attr(names[g]), _metrics_xml(mk, h_, w_, w_ + 1) if mk else "", data.hex(), imgfmt)
        strikes_d.append('<strikedata index="%d">%s</strikedata>' % (si, glyphs_xml))
    return '<?xml version="1.0" encoding="UTF-8"?>\n<ttFont><EBLC><header version="2.0"/>%s</EBLC><EBDT><header version="2.0"/>%s</EBDT></ttFont>' % ("".join(strikes_l), "".join(strikes_d))


def _xml_attr(s_):
    return '"' + s_.replace("&", "&amp;").replace("<", "&lt;").replace(">", "&gt;").replace('"', "&quot;") + '"'


def gen_font(i):
    if i not in _GEN:
        from fontTools.fontBuilder import FontBuilder
        from fontTools.pens.ttGlyphPen import TTGlyphPen
        from fontTools.ttLib import TTFont, newTable
        from fontTools.ttLib.tables.ttProgram import Program

        r = prng.sub("c03-gen", i)
        names = [".notdef"] + r.sample(NASTY_GLYPH_NAMES, r.randint(6, 16))
        if i % 4 == 0 and "None" not in names:
            names.insert(1 + r.randrange(len(names) - 1), "None")
        fb = FontBuilder(1000, isTTF=True)
        fb.setupGlyphOrder(names)
        cm = {0x41 + k: n for k, n in enumerate(names[1:])}
        uvs = None
        if r.random() < 0.6:
            # Unicode variation sequences (cmap format 14): default mappings (no glyph named) and non-default
            # ones, to any glyph - also to the ones with awkward names
            uvs = []
            for k in range(r.randint(1, 6)):
                base = 0x41 + r.randrange(len(names) - 1)
                vs = r.choice([0xFE00, 0xFE0F, 0xE0100, 0xE0101])
                if (base, vs) not in [(a, b) for a, b, _ in uvs]:
                    uvs.append((base, vs, None if r.random() < 0.3 else r.choice(names[1:])))
            for lit in ("None", "True", "null"):
                if lit in names and r.random() < 0.8:
                    uvs = [u for u in uvs if (u[0], u[1]) != (0x41, 0xFE01)] + [(0x41, 0xFE01, lit)]
        fb.setupCharacterMap(cm, uvs=uvs)
        glyphs = {}
        for k, n in enumerate(names):
            pen = TTGlyphPen(None)
            pen.moveTo((10 + k, 0))
            pen.lineTo((10 + k, 500 + k))
            pen.lineTo((300, 500 + k))
            pen.closePath()
            g = pen.glyph()
            if r.random() < 0.6:
                g.program = Program()
                g.program.fromBytecode(gen_program(r))
            glyphs[n] = g
        fb.setupGlyf(glyphs)
        fb.setupHorizontalMetrics({n: (600, 10 + k) for k, n in enumerate(names)})
        fb.setupHorizontalHeader()
        fb.setupNameTable({"familyName": "Gen & <Fam>", "styleName": "R"})
        fb.setupOS2()
        fb.setupPost(keepGlyphNames=True)
        for tag in ("fpgm", "prep"):
            t = newTable(tag)
            t.program = Program()
            t.program.fromBytecode(gen_program(r))
            fb.font[tag] = t
        fb.font["head"].created = fb.font["head"].modified = 3_600_000_000
        fb.font.recalcTimestamp = False
        b = io.BytesIO()
        fb.font.save(b)
        _GEN[i] = b.getvalue()
        if i % 3 == 1:
            # embedded bitmap strikes (no corpus font has EBLC/EBDT); kept only if the library accepts them
            try:
                f2 = TTFont(io.BytesIO(_GEN[i]), recalcTimestamp=False)
                f2.importXML(io.BytesIO(gen_bitmap_ttx(r, names).encode("utf-8")))
                b2 = io.BytesIO()
                f2.save(b2)
                f3 = TTFont(io.BytesIO(b2.getvalue()), recalcTimestamp=False)
                f3.ensureDecompiled()
                _GEN[i] = b2.getvalue()
            except Exception:
                pass
    return _GEN[i]


_SIGS = {}


def _by_signature():
    if not _SIGS:
        for rel in _fonts():
            try:
                k = " ".join(sorted(container.tables_of(_raw(rel))))
            except Exception:
                continue
            _SIGS.setdefault(k, []).append(rel)
    return _SIGS


_COMPOSITE_FONTS = []


def _composite_fonts():
    """Fonts of the corpus with composite glyphs (found by the independent glyf reader)."""
    if not _COMPOSITE_FONTS:
        from oracles import glyf as oglyf

        for rel in _fonts():
            try:
                tabs = container.tables_of(_raw(rel))
                if "glyf" in tabs and any(g and g["nc"] < 0 for g in oglyf.parse_glyphs(tabs)[3]):
                    _COMPOSITE_FONTS.append(rel)
            except Exception:
                pass
        _COMPOSITE_FONTS.append(None)  # computed marker
    return [f for f in _COMPOSITE_FONTS if f]


def _raw(rel):
    if rel.startswith("gen:"):
        return gen_font(int(rel[4:]))
    if rel.startswith("ttx:"):
        return corpus.gen2(rel)
    if rel.startswith("blob:"):
        return corpus.blob_font(rel[5:])
    return corpus.raw(rel)


def prepare(ctx):
    keys = ["ttx:" + t for t in corpus.ttx_files()]
    for k, v in zip(keys, ctx.pmap(corpus.compute_gen2, keys, timeout_s=300)):
        corpus.put_gen2(k, v)
    return {"fonts": len(_fonts()), "fonts_from_ttx": sum(1 for f in _fonts() if f.startswith("ttx:"))}


def batches(ctx):
    n = ctx.opts["cfg"]["n"]
    return [{"name": "sweep", "n": n["sweep"], "fault_free": True}, {"name": "merge", "n": n.get("merge", 0), "fault_free": True}]


def generate(ctx, batch, idx):
    r = ctx.rng(batch, idx)
    fonts = _fonts()
    rel = fonts[idx % len(fonts)] if r.random() < 0.7 else r.choice(fonts)
    if r.random() < 0.12:
        rel = "gen:%d" % r.randrange(N_GENERATED)
    elif r.random() < 0.2:
        # a table *set* first, a font second: fonts with an unusual make-up (a CFF master without post, an
        # AAT-only font, a font that is nothing but bitmaps) are not drowned by the hundreds of look-alikes
        sig = _by_signature()
        rel = r.choice(sig[r.choice(sorted(sig))])
    size = len(_raw(rel))
    opts = {}
    if r.random() < 0.25:
        opts["splitTables"] = True
    if r.random() < (0.5 if rel.startswith("gen:") else 0.15):
        opts["splitGlyphs"] = True
    if r.random() < 0.3:
        opts["disassembleInstructions"] = False
    if r.random() < 0.3:
        opts["bitmapGlyphDataFormat"] = r.choice(["raw", "row", "bitwise", "extfile"])
    nl = r.choice(["\n", "\n", "\r\n", "\r"])
    sel = None
    if batch == "merge":
        # partial dumps of the structural tables (the ones glyph order, glyph count and metrics hang on),
        # merged onto the font they came from - walked over the table make-ups of the corpus
        sig = _by_signature()
        keys = sorted(sig)
        rel = r.choice(sig[keys[idx % len(keys)]])
        size = len(_raw(rel))
        try:
            have = [t for t in STRUCTURAL if t in container.tables_of(_raw(rel))] or STRUCTURAL
        except Exception:
            have = STRUCTURAL
        sel = ["tables", r.sample(have, min(len(have), r.randint(1, 3))) + ([r.randrange(1 << 16)] if r.random() < 0.4 else [])]
    elif r.random() < 0.2:
        sel = ["tables", [r.randrange(1 << 16) for _ in range(r.randint(1, 4))]]
    elif r.random() < 0.15:
        sel = ["skipTables", [r.randrange(1 << 16) for _ in range(r.randint(1, 3))]]
    split = bool(opts.get("splitTables") or opts.get("splitGlyphs") or opts.get("bitmapGlyphDataFormat") == "extfile")
    kinds = ["path", "named-stream", "named-short"] if split else ["path", "bytesio", "text", "short", "short", "text-short", "named-short"]
    bufs = [7, 64, 4096, 0x4000, 0x4000] + ([1] if size < 12_000 else [])
    ops = [op for op in ([["name", r.randrange(1 << 30)]] if r.random() < 0.35 else []) + ([["fixed", r.randrange(1 << 30)]] if r.random() < 0.35 else []) + ([["reorder", r.randrange(1 << 30)]] if sel is None and r.random() < 0.15 else []) + ([["emptyprog", r.randrange(1 << 30)]] if r.random() < 0.1 else []) + ([["cffreals", r.randrange(1 << 30)]] if r.random() < 0.12 else [])]
    if any(o[0] == "cffreals" for o in ops) and "CFF " in corpus.keys_by_tag() and r.random() < 0.7:
        k_ = r.choice(corpus.keys_by_tag()["CFF "])
        rel = k_[4:] if k_.startswith("bin:") else k_
    if any(o[0] == "emptyprog" for o in ops):
        cf = _composite_fonts()
        if cf:
            rel = r.choice(cf)  # the edit needs composites: most corpus fonts have none
            sel = None if sel and r.random() < 0.7 else sel
    return {
        "kind": "sweep",
        "font": rel,
        "opts": opts,
        "newline": nl,
        "select": sel,
        "reader": r.choice(kinds),
        "bufsize": r.choice(bufs),
        "rseed": r.randrange(1 << 30),
        "lazy": r.choice([None, True, False]),
        # the source as another conforming writer stores it / with tables no corpus font has (TrueType only)
        "foreign": r.randrange(1 << 30) if r.random() < 0.2 else None,
        # a table whose payload is damaged, opened the way the ttx command opens fonts (decompile errors
        # ignored: the table is kept raw, dumped as hex and must come back as the same bytes)
        "damage": r.randrange(1 << 30) if sel is None and r.random() < 0.08 else None,
        # EDITs applied to the object model before it is dumped (values the corpus lacks)
        "ops": ops,
    }


class SplitProbe:
    """Counts how often expat delivered one text node in several pieces."""

    def __init__(self):
        self.splits = 0
        self.last_was_text = False


def _import(h, main_path, data, reader, bufsize, rseed, probes, base_font_bytes=None):
    from fontTools.ttLib import TTFont
    from fontTools.misc import xmlReader

    r = prng.sub("reader", rseed)
    if base_font_bytes is not None:
        font = TTFont(io.BytesIO(base_font_bytes), recalcTimestamp=False)
    else:
        font = TTFont(recalcTimestamp=False)
    xmlReader.BUFSIZE = bufsize
    # probe: did expat split a character-data node at a chunk boundary?
    orig = xmlReader.XMLReader._characterDataHandler
    state = {"prev": False, "splits": 0}
    orig_start = xmlReader.XMLReader._startElementHandler
    orig_end = xmlReader.XMLReader._endElementHandler

    def cdata(self_, data_):
        state["splits"] += 1  # number of character-data callbacks (more of them = text nodes were split)
        return orig(self_, data_)

    def start(self_, name, attrs):
        state["prev"] = False
        return orig_start(self_, name, attrs)

    def end(self_, name):
        state["prev"] = False
        return orig_end(self_, name)

    with world.patched(xmlReader.XMLReader, "_characterDataHandler", cdata), world.patched(xmlReader.XMLReader, "_startElementHandler", start), world.patched(xmlReader.XMLReader, "_endElementHandler", end):
        if reader == "path":
            font.importXML(main_path)
        elif reader == "bytesio":
            font.importXML(io.BytesIO(data))
        elif reader == "text":
            font.importXML(io.StringIO(data.decode("utf-8"), newline=""))
        elif reader == "short":
            font.importXML(SimReadStream(data, rng=r, short=True, seekable=False))
        elif reader == "text-short":
            font.importXML(SimTextReadStream(data.decode("utf-8"), rng=r, short=True))
        elif reader == "named-stream":
            font.importXML(SimReadStream(data, rng=r, short=False, seekable=True, name=main_path))
        elif reader == "named-short":
            font.importXML(SimReadStream(data, rng=r, short=True, seekable=False, name=main_path))
        else:
            raise ValueError(reader)
    probes["_cdata_calls"] = state["splits"]
    out = io.BytesIO()
    font.save(out)
    # tables the merged font never decoded (they were copied from the font it was merged onto)
    probes["_not_loaded"] = sorted(t for t in font.keys() if t != "GlyphOrder" and not font.isLoaded(t))
    return out.getvalue()


_WS = re.compile(r"\s+")
_WS_BYTES = bytes(32 if c in (9, 10, 13) else c for c in range(256))
# tables whose damaged payload does not take the rest of the font down with it (compare C20's findings K3-K7)
DAMAGEABLE = {"GSUB", "GPOS", "GDEF", "BASE", "MATH", "JSTF", "STAT", "name", "COLR", "CPAL", "kern", "gasp", "meta", "cvt ", "VDMX", "hdmx", "LTSH", "morx", "trak", "feat", "avar", "MVAR", "HVAR"}
STRUCTURAL = ["CFF ", "CFF2", "post", "cmap", "glyf", "loca", "hmtx", "vmtx", "maxp", "head", "hhea", "name", "OS/2", "GlyphOrder"]
FREE_TEXT_TABLES = {"name", "meta", "SVG ", "Debg", "TSI1", "TSI3", "TSI5", "TSIV", "TSIJ", "TSIP", "TSIS", "TSID", "TSIB", "TSIC", "ltag"}


def _norm_dump(font_bytes, tag):
    from fontTools.ttLib import TTFont

    f = TTFont(io.BytesIO(font_bytes), lazy=False)
    s = io.StringIO()
    f.saveXML(s, tables=[tag], writeVersion=False)
    return _WS.sub(" ", s.getvalue()).strip()


def execute(ctx, h):
    lvl = logging.root.manager.disable
    logging.disable(logging.CRITICAL)
    scratch = tempfile.mkdtemp(prefix="verif-c03-")
    try:
        with world.isolated(cwd=scratch):
            return _execute(ctx, h, scratch)
    finally:
        shutil.rmtree(scratch, ignore_errors=True)
        logging.disable(lvl)


def _execute(ctx, h, scratch):
    from fontTools.ttLib import TTFont

    events, probes = [], {}
    res = {"events": events, "probes": probes, "faults": {}, "states": [], "known": [], "nontrivial": False}
    rel = h["font"]
    src = _raw(rel)
    if rel.startswith("gen:"):
        probes["input.generated"] = 1
    if h.get("foreign") is not None and src is not None and container.kind_of(src) == "sfnt":
        from oracles import foreign

        rr = prng.sub("c03foreign", h["foreign"])
        try:
            v = container.foreign_variant(src, compflags=rr.choice([None, rr.randrange(1 << 16)]), emptyinstr=rr.choice([None, rr.randrange(1 << 16), rr.randrange(1 << 16)]), unitscale=rr.choice([None, rr.randrange(1 << 16)]))
            tabs = dict(container.tables_of(v if v is not None else src))
            if "glyf" in tabs and "maxp" in tabs and len(tabs["maxp"]) >= 6:
                ng_ = struct.unpack_from(">H", tabs["maxp"], 4)[0]
                for t, mk in (("VDMX", lambda: foreign.vdmx(rr)), ("hdmx", lambda: foreign.hdmx(ng_, rr)), ("LTSH", lambda: foreign.ltsh(ng_, rr))):
                    if t not in tabs and rr.random() < 0.7:
                        tabs[t] = mk()
                        v = True
                        probes["foreign." + t] = 1
                if "post" in tabs and rr.random() < 0.5:
                    pt = foreign.post2(tabs["post"], ng_, rr, dup_pool=rr.random() < 0.7)
                    if pt is not None:
                        tabs["post"] = pt
                        v = True
                        probes["foreign.post"] = 1
            if v is not None:
                src = container.rebuild_sfnt(src[:4], tabs)
                probes["foreign"] = 1
        except (struct.error, KeyError, IndexError, ValueError):
            pass

    def fail(cls, detail, **sig):
        if not res.get("violation"):
            res["violation"] = {"class": cls, "detail": detail + " [%s opts=%s newline=%r reader=%s BUFSIZE=%d select=%s]" % (rel, h["opts"], h["newline"], h["reader"], h["bufsize"], h["select"]), "sig": dict(sig, font=rel)}

    damaged = None
    src_undamaged = src
    if h.get("damage") is not None and src is not None and container.kind_of(src) == "sfnt":
        rr = prng.sub("c03damage", h["damage"])
        try:
            tabs = dict(container.tables_of(src))
            cands = sorted(t for t in tabs if t in DAMAGEABLE and len(tabs[t]) >= 8)
            if cands:
                damaged = rr.choice(cands)
                d = tabs[damaged]
                how = rr.choice(["trunc", "trunc", "flip", "garbage"])
                if how == "trunc":
                    d = d[: rr.randint(1, len(d) - 1)]
                elif how == "flip":
                    d = bytearray(d)
                    for _ in range(rr.randint(1, 6)):
                        d[rr.randrange(len(d))] ^= 1 << rr.randrange(8)
                    d = bytes(d)
                else:
                    d = bytes(rr.randrange(256) for _ in range(rr.randint(4, 40)))
                tabs[damaged] = d
                src = container.rebuild_sfnt(src[:4], tabs)
                probes["damage." + how] = 1
        except (struct.error, KeyError, IndexError, ValueError):
            damaged = None
    # the source object model and what it compiles to
    try:
        font = TTFont(io.BytesIO(src), lazy=h["lazy"], recalcTimestamp=False, ignoreDecompileErrors=damaged is not None)
        if damaged is not None and type(font[damaged]).__name__ != "DefaultTable":
            # the damaged payload still decodes: that is some other font, not in the quantifier (corpus and
            # generated fonts); this clause is about tables that cannot be decoded. Back to the undamaged file.
            probes["damage.decodes_anyway"] = 1
            damaged = None
            src = src_undamaged
            font = TTFont(io.BytesIO(src), lazy=h["lazy"], recalcTimestamp=False)
        tags = [t for t in font.keys() if t != "GlyphOrder"]
        for name, seed in h.get("ops", []):
            rr = prng.sub("edit", seed)
            if name == "name" and "name" in font:
                nasty = rr.choice(["a & b", "<tag>", 'q"uote\'s', "]]>", "é ü 日本", "tab\there", "amp;&amp;", "  lead and trail  ", "two  spaces", "&#10;", "a&b<c>d\"e", "\U0001F600"])
                font["name"].setName(nasty, rr.choice([1, 4, 5, 256, 300]), 3, 1, 0x409)
                probes["edit.name"] = 1
                if rr.random() < 0.12:
                    # a record under the "custom" platform (4): its bytes are opaque to the library - here text that
                    # is not valid in any encoding it tries, with a NUL byte (known finding K10: the dump cannot be parsed back)
                    font["name"].setName(b"\x00C\xd8\x00", 260, 4, 0, 0)
                    probes["edit.name_custom_platform"] = 1
            if name == "reorder":
                # glyph order no longer the order of the names (whatever a dump sorts by name must still
                # come back in glyph order)
                from props import c16

                c16.apply_edit(font, "reorder", {"k": 0, "seed": seed})
                probes["edit.reorder"] = 1
            if name == "cffreals" and "CFF " in font:
                # hinting zones with fractional values: DICT arrays mixing real and integer operands (valid;
                # whole numbers after a real one are reals in the object model and must come back as such)
                cff_ = font["CFF "].cff
                td_ = cff_[cff_.fontNames[0]]
                privs = [fd.Private for fd in getattr(td_, "FDArray", [])] if hasattr(td_, "FDArray") else [td_.Private]
                for pv in privs[:3]:
                    base_ = rr.randrange(400, 520)
                    # (as the decoder leaves them: once a delta is fractional the running value is a float)
                    pv.BlueValues = [-12, 0, base_ + 0.5, float(base_ + 12), 700.0, 712 + rr.choice([0.0, 0.25])]
                    if rr.random() < 0.5:
                        pv.StemSnapH = [30 + rr.choice([0, 0.5]), 40.0]
                probes["edit.cffreals"] = 1
            if name == "emptyprog" and "glyf" in font:
                # composites that announce instructions and carry none (an empty program object): valid, and
                # what some hinting tools leave behind
                from fontTools.ttLib.tables import ttProgram

                n_ = 0
                for gn in font.getGlyphOrder():
                    g_ = font["glyf"][gn]
                    if g_.isComposite() and rr.random() < 0.7:
                        g_.program = ttProgram.Program()
                        g_.program.fromBytecode(b"")
                        n_ += 1
                        if n_ >= 5:
                            break
                if n_:
                    probes["edit.emptyprog"] = 1
            if name == "fixed":
                if "head" in font:
                    font["head"].fontRevision = rr.randrange(1, 1 << 20) / 65536.0
                if "post" in font:
                    font["post"].italicAngle = rr.randrange(-(1 << 19), 1 << 19) / 65536.0
                probes["edit.fixed"] = 1
        kw = dict(h["opts"])
        sel_tags = None
        if h["select"]:
            # Gloc is written by its owner (Glat) and has no content of its own; so is loca, but a dump
            # may list it without glyf, and the merged font must then keep the loca it has
            cand = [t for t in tags if t not in ("Gloc",)]
            sel_tags = set(cand[k % len(cand)] if isinstance(k, int) else k for k in h["select"][1] if isinstance(k, int) or k in cand) or {cand[0]}
            # bitmap location tables hold nothing but what their data table's compile puts there (like
            # Gloc/Glat): the pair is dumped, or skipped, together
            for loc_, dat_ in (("CBLC", "CBDT"), ("EBLC", "EBDT"), ("bloc", "bdat"), ("Gloc", "Glat")):
                if (loc_ in sel_tags or dat_ in sel_tags) and loc_ in tags and dat_ in tags:
                    sel_tags |= {loc_, dat_}
            sel_tags = sorted(sel_tags)
            kw[h["select"][0]] = sel_tags
        d = os.path.join(scratch, "dump")
        os.makedirs(d)
        main = os.path.join(d, "font.ttx")
        font.saveXML(main, newlinestr=h["newline"], **kw)
        # the import decodes every table it reads, so the reference object model is fully decoded too
        font.ensureDecompiled()
        ref = io.BytesIO()
        font.save(ref)
        ref = ref.getvalue()
    except Exception as e:
        # a corpus font that cannot be dumped or recompiled at all is C01's business
        events.append(["source-not-dumpable", type(e).__name__, str(e)[:60]])
        probes["source_not_dumpable"] = 1
        return res
    with open(main, "rb") as f:
        data = f.read()
    res["nontrivial"] = True
    for k in h["opts"]:
        probes["dump." + k] = 1
    probes["newline." + {"\n": "lf", "\r\n": "crlf", "\r": "cr"}[h["newline"]]] = 1
    probes["reader." + ("short" if "short" in h["reader"] else "text" if "text" in h["reader"] else h["reader"])] = 1
    probes["bufsize.%d" % h["bufsize"]] = 1
    partial = h["select"] is not None
    base = src if partial else None  # partial dumps are merged onto the source font (ttx -m)
    # baseline import: path, default buffer
    try:
        a = _import(h, main, data, "path", 0x4000, 0, probes, base)
    except Exception as e:
        cls = "import-of-own-dump-raises:" + type(e).__name__
        m_ = re.search(r"reference to invalid character number: line (\d+)", str(e))
        if m_:
            # which element carries the character reference XML 1.0 has no way to express (NUL, most C0 controls)?
            try:
                ln_ = int(m_.group(1)) - 1
                # (a split dump: the line is in one of the per-table files)
                for fn_ in sorted(os.listdir(d)):
                    if not fn_.endswith(".ttx"):
                        continue
                    with open(os.path.join(d, fn_), "rb") as f_:
                        lines_ = f_.read().decode("utf-8", "replace").replace("\r\n", "\n").replace("\r", "\n").split("\n")
                    if ln_ < len(lines_) and "&#" in lines_[ln_]:
                        ctx_ = " ".join(lines_[max(0, ln_ - 2) : ln_ + 1])
                        if "<namerecord" in ctx_ and 'unicode="False"' in ctx_:
                            cls = "ttx-dump-has-forbidden-character-reference:name-record-bytes"
                        break
            except Exception:
                pass
        fail(cls, "importing the dump raised %s: %s" % (type(e).__name__, str(e)[:120]), exc=type(e).__name__)
        _known(h, res)
        return res
    base_calls = probes.pop("_cdata_calls", 0)
    not_loaded = set(probes.pop("_not_loaded", []))
    # delivery under test
    try:
        b = _import(h, main, data, h["reader"], h["bufsize"], h["rseed"], probes, base)
    except Exception as e:
        fail("import-depends-on-delivery:raises", "the same dump imports through a path but raises %s through the simulated delivery: %s" % (type(e).__name__, str(e)[:120]))
        return res
    probes.pop("_not_loaded", None)
    if probes.pop("_cdata_calls", 0) > base_calls:
        probes["expat.split_text_node"] = 1
    events.append([rel, prng.bdigest(data), prng.bdigest(a), prng.bdigest(b)])
    res["states"].append("%s|%s|%s|%d" % (rel, sorted(h["opts"].items()), h["reader"], h["bufsize"]))
    if a != b:
        try:
            ta, tb = container.tables_of(a), container.tables_of(b)
            dt = [t for t in sorted(set(ta) | set(tb)) if ta.get(t) != tb.get(t)]
        except Exception:
            dt = ["?"]
        fail("import-depends-on-delivery", "importing the same dump through a path and through the simulated delivery gives different fonts; tables %s" % dt, tables=dt)
        return res
    if damaged is not None and damaged in font and type(font[damaged]).__name__ == "DefaultTable":
        probes["damage.kept_raw"] = 1
    # losslessness against the source object model
    try:
        ta, tr = container.tables_of(a), container.tables_of(ref)
    except Exception as e:
        fail("output-unreadable", str(e))
        return res
    if set(ta) != set(tr):
        fail("table-set-differs-after-ttx-roundtrip", "%s" % sorted(set(ta) ^ set(tr)))
    judged = set(ta) & set(tr)
    if partial:
        # a partial dump is merged onto the source font (ttx -m): only the tables it contains are judged,
        # the others were never decoded in the merged font
        dumped = set(sel_tags) if h["select"][0] == "tables" else set(tags) - set(sel_tags)
        judged &= dumped - {"head", "hhea", "vhea", "maxp", "hmtx", "vmtx", "loca", "glyf", "OS/2", "post", "CFF ", "CFF2"}
    if partial:
        # merged onto the unedited source: what the dump does not contain passes through untouched, and
        # loca stays what it was unless glyf was re-imported
        try:
            ts = container.tables_of(src)
        except Exception:
            ts = {}
        # (a table that compiling another one decoded - cmap for OS/2, glyf for maxp - is re-encoded and
        # not judged here; loca is judged unless glyf was decoded, i.e. recompiled)
        keep = (set(ts) & set(ta) & not_loaded) - dumped
        if "glyf" in not_loaded and "loca" in ts and "loca" in ta:
            keep.add("loca")
        for t in sorted(keep):
            probes["merge.untouched_checked"] = probes.get("merge.untouched_checked", 0) + 1
            x, y = ta[t], ts[t]
            if t == "head" and len(x) >= 12 and len(y) >= 12:
                x, y = x[:8] + x[12:], y[:8] + y[12:]  # checkSumAdjustment belongs to the file
            if x != y:
                fail("ttx-merge-changes-table-not-in-dump:" + t.strip(), "table %r was not re-imported (dump has %s) yet the merged font stores %d bytes where the font it was merged onto has %d" % (t, sorted(dumped)[:6], len(ta[t]), len(ts[t])), tag=t)
                break
    for t in sorted(judged):
        x, y = ta[t], tr[t]
        if t == "head" and len(x) >= 12 and len(y) >= 12:
            x, y = x[:8] + x[12:], y[:8] + y[12:]
        probes["lossless.tables_checked"] = probes.get("lossless.tables_checked", 0) + 1
        if x != y:
            # free text is compared after white-space normalisation - in the tables that hold free text only:
            # the comparison goes through the dumper under test, which must not get to excuse itself elsewhere
            if t in ("CFF ", "CFF2") and len(x) == len(y) and x.translate(_WS_BYTES) == y.translate(_WS_BYTES):
                # CFF strings (Notice, Copyright...) are free text written as XML attributes: a line break
                # comes back as a space; nothing but such bytes differs
                probes["lossless.equal_after_ws_normalisation"] = probes.get("lossless.equal_after_ws_normalisation", 0) + 1
                continue
            try:
                if t in FREE_TEXT_TABLES and _norm_dump(a, t) == _norm_dump(ref, t):
                    probes["lossless.equal_after_ws_normalisation"] = probes.get("lossless.equal_after_ws_normalisation", 0) + 1
                    continue
            except Exception:
                pass
            if t == "head" and len(ta[t]) == len(tr[t]) == 54:
                m = lambda d: d[:8] + d[12:20] + d[36:]  # noqa: E731  without checkSumAdjustment, created, modified
                pre1970 = [int.from_bytes(tr[t][o : o + 8], "big", signed=True) < 2082844800 for o in (20, 28)]
                if m(ta[t]) == m(tr[t]) and any(pre1970):
                    saved = res.get("violation")
                    res["violation"] = None
                    fail("ttx-clamps-pre-1970-timestamp", "head.created/modified of the source lie before 1970-01-01 (%s) and come back from TTX as 1970-01-01 00:00:00" % [int.from_bytes(tr[t][o : o + 8], "big", signed=True) for o in (20, 28)], tag="head")
                    _known(h, res)
                    if res.get("violation") is None:
                        res["violation"] = saved
                        continue  # a listed finding: keep judging the other tables
                    break
            fail("ttx-roundtrip-changes-table:" + t.strip(), "table %r compiled from the imported dump (%d bytes) differs from what the source object model compiles to (%d bytes)" % (t, len(ta[t]), len(tr[t])), tag=t)
            break
    if res.get("violation"):
        _known(h, res)
    return res


def _known(h, res):
    from sim import runner

    v = res["violation"]
    for e in runner.load_known(ID):
        m = e["match"]
        if m.get("class") and m["class"] != v["class"]:
            continue
        sig = v.get("sig") or {}
        if any(sig.get(k) != val for k, val in m.get("sig", {}).items()):
            continue
        if "detail_contains" in m and m["detail_contains"] not in v.get("detail", ""):
            continue
        res["known"].append({"id": e["id"], "text": e["text"]})
        res["violation"] = None
        return


def simplify(ctx, h):
    import copy

    for k in list(h["opts"]):
        c = copy.deepcopy(h)
        del c["opts"][k]
        yield c
    for k, v in (("newline", "\n"), ("select", None), ("lazy", None), ("bufsize", 0x4000), ("reader", "bytesio")):
        if h.get(k) != v:
            c = copy.deepcopy(h)
            c[k] = v
            if k == "reader" and (h["opts"].get("splitTables") or h["opts"].get("splitGlyphs")):
                continue
            yield c
