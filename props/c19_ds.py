"""C19 machine B: DesignSpaceDocument histories (build, write, read, move, rewrite)."""
import math
import os
import shutil
import tempfile

from sim import prng

TEXTS = ["Weight", "tab\there", "cr\rx", "nl\nx", "Gewicht", "幅", "a<b>&\"c'", "é ü", "x", "Name With Spaces", "ﬁ"]
LANGS = ["en", "fr", "de", "ja", "fa-IR", "zh-Hans"]
TAGS = ["wght", "wdth", "opsz", "ital", "slnt", "GRAD", "XTRA", "ZZ01", "a b "]


def gnum(r, lo=-1000, hi=2000):
    k = r.random()
    if k < 0.6:
        return r.randint(lo, hi)
    if k < 0.9:
        return r.choice([0.5, 12.25, 100.125, 333.333, 1e-3, 62.5]) + r.randint(0, 900)
    return r.choice([0, 1, 1000, 0.0, 1e6])


def build_doc(h):
    """Builds a DesignSpaceDocument from the op list. Returns (doc, info)."""
    from fontTools.designspaceLib import (
        DesignSpaceDocument,
        AxisDescriptor,
        DiscreteAxisDescriptor,
        AxisLabelDescriptor,
        AxisMappingDescriptor,
        RuleDescriptor,
        SourceDescriptor,
        InstanceDescriptor,
        LocationLabelDescriptor,
        VariableFontDescriptor,
        RangeAxisSubsetDescriptor,
        ValueAxisSubsetDescriptor,
    )

    doc = DesignSpaceDocument()
    if h.get("fmt"):
        # e.g. a document that was read from a version 4 file and is being extended
        doc.formatVersion = h["fmt"]
    axes = []  # (name, kind, lo, default, hi, values)
    used_names, used_tags = set(), set()
    counters = {"src": 0, "inst": 0, "rule": 0, "vf": 0, "label": 0}
    monotone = {}

    hiprec = h.get("hiprec", False)

    def rnd(v):
        return v if hiprec else round(v, 3)

    def user_value(r, ax):
        name, kind, lo, df, hi, values = ax
        if kind == "discrete":
            return r.choice(values)
        return r.choice([lo, df, hi, round(r.uniform(lo, hi), 3)])

    def design_loc(r, partial=True, aniso=False):
        loc = {}
        for ax in axes:
            if partial and r.random() < 0.3:
                continue
            v = rnd(doc_axis(ax[0]).map_forward(user_value(r, ax)))
            if aniso and r.random() < 0.15:
                v = (v, v + r.randint(1, 50))
            loc[ax[0]] = v
        return loc

    def user_loc(r):
        return {ax[0]: user_value(r, ax) for ax in axes if r.random() < 0.7}

    def doc_axis(name):
        for a in doc.axes:
            if a.name == name:
                return a

    def label_names(r):
        return {r.choice(LANGS): r.choice(TEXTS) for _ in range(r.randint(0, 2))}

    for name, seed in h["ops"]:
        r = prng.sub("ds", seed)
        if name in ("axis", "discrete"):
            aname = r.choice(["weight", "width", "optical", "Italic", "é axis", "slant", "grade", "contrast"])
            tag = r.choice(TAGS)
            if aname in used_names or tag in used_tags or len(axes) >= 4:
                continue
            used_names.add(aname)
            used_tags.add(tag)
            if name == "axis":
                lo = gnum(r, -100, 400)
                hi = lo + r.choice([1, 100, 600.5, 900])
                df = r.choice([lo, hi, round(lo + (hi - lo) * r.random(), 2)])
                a = AxisDescriptor(tag=tag, name=aname, minimum=lo, default=df, maximum=hi, hidden=r.random() < 0.2)
                if r.random() < 0.5:
                    # a strictly monotone user -> design map through (lo, df, hi)
                    xs = sorted(set([lo, df, hi] + [round(r.uniform(lo, hi), 1) for _ in range(r.randint(0, 3))]))
                    y = r.randint(-50, 50)
                    m = []
                    for x in xs:
                        y += r.choice([1, 5, 12.5, 100])
                        m.append((x, y))
                    a.map = m
                    monotone[aname] = True
                axes.append((aname, "range", lo, df, hi, None))
            else:
                values = sorted(set(r.choice([0, 1, 2, 5, 10.5, 100, 400, 700]) for _ in range(r.randint(1, 4))))
                df = r.choice(values)
                a = DiscreteAxisDescriptor(tag=tag, name=aname, values=values, default=df)
                if r.random() < 0.3:
                    a.map = [(v, v * 2 + 1) for v in values]
                axes.append((aname, "discrete", min(values), df, max(values), values))
            if r.random() < 0.4:
                a.labelNames = label_names(r)
            if r.random() < 0.4:
                # ordering and labels are independent: an ordering (also 0) without labels, labels without
                # an ordering, or both
                q_ = r.random()
                if q_ < 0.75:
                    a.axisOrdering = r.choice([0, 0, 1, 2, 5])
                labels = []
                for _ in range(0 if q_ < 0.25 else r.randint(1, 3)):
                    ax = axes[-1]
                    kw = dict(name=r.choice(TEXTS), userValue=user_value(r, ax), elidable=r.random() < 0.3, olderSibling=r.random() < 0.2, labelNames=label_names(r))
                    if ax[1] == "range" and r.random() < 0.4:
                        kw["userMinimum"], kw["userMaximum"] = ax[2], ax[4]
                    if r.random() < 0.3:
                        kw["linkedUserValue"] = user_value(r, ax)
                    labels.append(AxisLabelDescriptor(**kw))
                a.axisLabels = labels
            doc.addAxis(a)
        elif name == "mapping":
            if len(axes) >= 2:
                m = AxisMappingDescriptor(inputLocation=user_loc(r) or {axes[0][0]: axes[0][3]}, outputLocation=user_loc(r) or {axes[1][0]: axes[1][3]})
                if r.random() < 0.5:
                    m.description = r.choice(TEXTS)
                if r.random() < 0.5:
                    # few distinct group descriptions, so that groups repeat non-contiguously (A, B, A / None, x, None)
                    m.groupDescription = r.choice(["light side", "heavy side", TEXTS[0]])
                doc.addAxisMapping(m)
                if r.random() < 0.5:
                    # mappings come in bunches
                    for _ in range(r.randint(1, 3)):
                        m2 = AxisMappingDescriptor(inputLocation=user_loc(r) or {axes[0][0]: axes[0][3]}, outputLocation=user_loc(r) or {axes[1][0]: axes[1][3]})
                        if r.random() < 0.6:
                            m2.groupDescription = r.choice(["light side", "heavy side", TEXTS[0]])
                        doc.addAxisMapping(m2)
        elif name == "rule":
            if axes:
                counters["rule"] += 1
                cs = []
                for _ in range(r.randint(1, 2)):
                    conds = []
                    for ax in r.sample(axes, r.randint(1, len(axes))):
                        a = doc_axis(ax[0])
                        lo_, hi_ = sorted([rnd(a.map_forward(user_value(r, ax))), rnd(a.map_forward(user_value(r, ax)))])
                        c = {"name": ax[0]}
                        k = r.random()
                        if k < 0.7:
                            c["minimum"], c["maximum"] = lo_, hi_
                        elif k < 0.85:
                            c["minimum"], c["maximum"] = lo_, None
                        else:
                            c["minimum"], c["maximum"] = None, hi_
                        conds.append(c)
                    cs.append(conds)
                subs = [(r.choice(["a", "dollar", "é", "a<b"]), r.choice(["a.alt", "dollar.rvrn", "x&y"])) for _ in range(r.randint(1, 3))]
                doc.addRule(RuleDescriptor(name="rule%d %s" % (counters["rule"], r.choice(["", "é", "<x>"])), conditionSets=cs, subs=subs))
                if r.random() < 0.3:
                    doc.rulesProcessingLast = True
        elif name == "source":
            counters["src"] += 1
            n = counters["src"]
            s = SourceDescriptor(name="master.%d" % n, familyName=r.choice([None, "Fam", "Fam é"]), styleName=r.choice([None, "Bold", "Light <x>"]))
            s.filename = r.choice(["masters/m%d.ufo" % n, "m%d.ufo" % n, "../sources/m%d.ufo" % n, "sub dir/é%d.ufo" % n])
            s.location = design_loc(r, partial=r.random() < 0.4)
            if r.random() < 0.3:
                s.layerName = r.choice(["background", "é layer"])
            if r.random() < 0.3:
                s.localisedFamilyName = {r.choice(LANGS[1:]): r.choice(TEXTS)}
            for flag in ("copyLib", "copyInfo", "copyGroups", "copyFeatures", "muteKerning", "muteInfo"):
                if r.random() < 0.15:
                    setattr(s, flag, True)
            if r.random() < 0.2:
                s.mutedGlyphNames = [r.choice(["A", "Z", "é", "a.alt"]) for _ in range(r.randint(1, 2))]
            doc.addSource(s)
        elif name == "instance":
            counters["inst"] += 1
            n = counters["inst"]
            i = InstanceDescriptor(name="instance.%d" % n, familyName=r.choice([None, "Fam"]), styleName=r.choice([None, "Medium", "é"]))
            if r.random() < 0.7:
                i.filename = r.choice(["instances/i%d.ufo" % n, "i%d.ufo" % n, "../out/i%d.ufo" % n])
            k = r.random()
            if k < 0.5:
                i.designLocation = design_loc(r, partial=r.random() < 0.4, aniso=True)
            elif k < 0.8:
                i.userLocation = user_loc(r)
                if r.random() < 0.3:
                    rest = [ax for ax in axes if ax[0] not in i.userLocation]
                    i.designLocation = {ax[0]: rnd(doc_axis(ax[0]).map_forward(user_value(r, ax))) for ax in rest}
            elif doc.locationLabels:
                i.locationLabel = r.choice(doc.locationLabels).name
            for attr in ("postScriptFontName", "styleMapFamilyName"):
                if r.random() < 0.3:
                    setattr(i, attr, r.choice(["PS-Name", "Fam é"]))
            if r.random() < 0.3:
                i.styleMapStyleName = r.choice(["regular", "bold", "italic", "bold italic"])
            for attr in ("localisedFamilyName", "localisedStyleName", "localisedStyleMapFamilyName", "localisedStyleMapStyleName"):
                if r.random() < 0.15:
                    setattr(i, attr, {r.choice(LANGS[1:]): r.choice(TEXTS)})
            if r.random() < 0.3:
                i.lib = gen_lib(r)
            doc.addInstance(i)
        elif name == "loclabel":
            if axes:
                counters["label"] += 1
                doc.addLocationLabel(LocationLabelDescriptor(name="Label %d %s" % (counters["label"], r.choice(["", "é"])), userLocation=user_loc(r) or {axes[0][0]: axes[0][3]}, elidable=r.random() < 0.3, olderSibling=r.random() < 0.2, labelNames=label_names(r)))
        elif name == "vf":
            if axes:
                counters["vf"] += 1
                subsets = []
                for ax in r.sample(axes, r.randint(1, len(axes))):
                    if ax[1] == "range" and r.random() < 0.7:
                        kw = {"name": ax[0]}
                        if r.random() < 0.5:
                            lo_, hi_ = sorted([user_value(r, ax), user_value(r, ax)])
                            kw.update(userMinimum=lo_, userMaximum=hi_)
                            if r.random() < 0.5:
                                kw["userDefault"] = r.choice([lo_, hi_])
                        subsets.append(RangeAxisSubsetDescriptor(**kw))
                    else:
                        subsets.append(ValueAxisSubsetDescriptor(name=ax[0], userValue=user_value(r, ax)))
                vf = VariableFontDescriptor(name="VF%d%s" % (counters["vf"], r.choice(["", "-é"])), axisSubsets=subsets)
                if r.random() < 0.5:
                    vf.filename = r.choice(["vf%d.ttf" % counters["vf"], "out/vf%d.otf" % counters["vf"]])
                if r.random() < 0.3:
                    vf.lib = gen_lib(r)
                doc.addVariableFont(vf)
        elif name == "lib":
            doc.lib = gen_lib(r)
        elif name == "label":
            pass
    if h.get("fmt", "") and str(h["fmt"]).startswith("4"):
        # a version 4 document cannot express partial locations (its reader completes them with the
        # axis defaults): a document kept at version 4 carries full design locations
        for d in list(doc.sources) + [i for i in doc.instances if not i.userLocation and not i.locationLabel]:
            d.designLocation = d.getFullDesignLocation(doc)
    return doc, {"axes": axes, "monotone": monotone}


def gen_lib(r):
    from props.c19 import gen_plist_value, gen_key

    return {gen_key(r) or "k": gen_plist_value(r, 1) for _ in range(r.randint(1, 3))}


def norm(d, top=True):
    """asdict() with the things a round trip may legitimately change removed."""
    if isinstance(d, dict):
        out = {}
        for k, v in d.items():
            if top and k in ("path", "filename", "formatVersion", "default"):  # 'default' is derived (findDefault) on read
                continue
            if k == "path" and not top:
                continue  # absolute paths of sources/instances are derived from filename + document path
            if k == "font":
                continue
            out[k] = norm(v, top=False)
        return out
    if isinstance(d, (list, tuple)):
        return [norm(x, top=False) for x in d]
    return d


def first_diff(a, b, path=""):
    if type(a) is not type(b) and not (isinstance(a, (int, float)) and isinstance(b, (int, float))):
        return "%s: %r vs %r" % (path, a, b)
    if isinstance(a, dict):
        for k in sorted(set(a) | set(b), key=str):
            if k not in a or k not in b:
                return "%s.%s: present on one side only (%r / %r)" % (path, k, a.get(k), b.get(k))
            d = first_diff(a[k], b[k], path + "." + str(k))
            if d:
                return d
        return None
    if isinstance(a, list):
        if len(a) != len(b):
            return "%s: length %d vs %d" % (path, len(a), len(b))
        for i, (x, y) in enumerate(zip(a, b)):
            d = first_diff(x, y, "%s[%d]" % (path, i))
            if d:
                return d
        return None
    if a != b:
        if isinstance(a, float) and isinstance(b, (int, float)) and not isinstance(b, bool) and abs(a - b) <= 5.1e-7:
            return "ROUNDED %s: %r vs %r" % (path, a, b)
        return "%s: %r vs %r" % (path, a, b)
    return None


def execute(ctx, h):
    from fontTools.designspaceLib import DesignSpaceDocument, DesignSpaceDocumentError
    from fontTools.misc import etree as ft_etree
    import fontTools.designspaceLib as dsl

    events, probes = [], {}
    res = {"events": events, "probes": probes, "faults": {}, "states": [], "known": [], "nontrivial": False}

    def fail(cls, detail):
        if not res.get("violation"):
            res["violation"] = {"class": cls, "detail": detail, "sig": {}}

    try:
        doc, info = build_doc(h)
    except DesignSpaceDocumentError as e:
        events.append(["build-rejected", str(e)[:80]])
        probes["B.rejected"] = 1
        return res
    if not doc.axes and not doc.sources:
        return res
    scratch = tempfile.mkdtemp(prefix="verif-c19-")
    try:
        d1 = os.path.join(scratch, "proj", "ds")
        d2 = os.path.join(scratch, "proj", "moved", "deeper")
        os.makedirs(d1)
        os.makedirs(d2)
        p1 = os.path.join(d1, "Test é.designspace")
        before = norm(doc.asdict())
        try:
            doc.write(p1)
        except DesignSpaceDocumentError as e:
            events.append(["write-rejected", str(e)[:80]])
            probes["B.rejected"] = 1
            return res
        res["nontrivial"] = True
        with open(p1, "rb") as f:
            b1 = f.read()
        events.append(prng.bdigest(b1))
        res["states"].append(prng.bdigest(b1))
        try:
            back = DesignSpaceDocument.fromfile(p1)
        except DesignSpaceDocumentError as e:
            if not doc.axes:
                # an axis-less document is only meaningful from version 5 on; version 4 readers refuse it
                events.append(["read-rejected-no-axes", str(e)[:60]])
                probes["B.rejected"] = 1
                return res
            fail("written-designspace-unreadable", "the reader refused a document the writer produced: %s" % str(e)[:200])
            return res
        probes["B.roundtrip"] = 1
        after = norm(back.asdict())
        d = first_diff(before, after)
        if d and d.startswith("ROUNDED"):
            fail("designspace-float-rounded-to-6-decimals", "written vs re-read document differ at %s" % d[8:])
        elif d:
            fail("designspace-roundtrip-differs", "written vs re-read document differ at %s" % d)
        if float(back.formatVersion or 0) < float(doc.formatVersion or 0):
            fail("designspace-format-version-decreased", "%s -> %s" % (doc.formatVersion, back.formatVersion))
        # a second write (of the re-read document, same place) is byte-identical
        back.write(p1)
        with open(p1, "rb") as f:
            b2 = f.read()
        if b1 != b2 and not res.get("violation"):
            fail("designspace-second-write-differs", "re-writing the re-read document changed %d -> %d bytes" % (len(b1), len(b2)))
        # tostring / fromstring fixed point
        s1 = doc.tostring()
        s2 = DesignSpaceDocument.fromstring(s1).tostring()
        if s1 != s2 and not res.get("violation"):
            fail("designspace-tostring-not-a-fixed-point", "tostring(fromstring(tostring(doc))) differs")
        # move the document: filename attributes must be relative to the new place, paths unchanged
        np = lambda p: os.path.normpath(p) if p else p  # noqa: E731
        abs_before = [(s.name, np(s.path)) for s in back.sources] + [(i.name, np(i.path)) for i in back.instances]
        p2 = os.path.join(d2, "Moved.designspace")
        back.write(p2)
        moved = DesignSpaceDocument.fromfile(p2)
        abs_after = [(s.name, np(s.path)) for s in moved.sources] + [(i.name, np(i.path)) for i in moved.instances]
        if abs_before != abs_after and not res.get("violation"):
            fail("designspace-move-changes-resolved-paths", "%r vs %r" % (abs_before[:3], abs_after[:3]))
        for s in list(moved.sources) + list(moved.instances):
            if s.filename is not None and s.path is not None:
                want = os.path.relpath(s.path, d2).replace(os.sep, "/")
                if s.filename != want and not res.get("violation"):
                    fail("designspace-filename-not-relative-to-document", "%r, expected %r" % (s.filename, want))
        # axis maps: map_backward undoes map_forward on monotone maps
        r = prng.sub("mapcheck", h["seed"])
        for a in doc.axes:
            if info["monotone"].get(a.name) and hasattr(a, "minimum"):
                for _ in range(6):
                    v = r.choice([a.minimum, a.default, a.maximum, round(r.uniform(a.minimum, a.maximum), 3)])
                    w = a.map_backward(a.map_forward(v))
                    probes["B.mapcheck"] = probes.get("B.mapcheck", 0) + 1
                    if not math.isclose(w, v, rel_tol=1e-9, abs_tol=1e-9) and not res.get("violation"):
                        fail("axis-map-inverse", "axis %r map %r: backward(forward(%r)) = %r" % (a.name, a.map, v, w))
                loc = {a.name: a.default}
                if not math.isclose(doc.map_backward(doc.map_forward(loc))[a.name], a.default, rel_tol=1e-9, abs_tol=1e-9) and not res.get("violation"):
                    fail("axis-map-inverse", "document map_backward(map_forward(default)) for %r" % a.name)
        # history: the map is edited in place after it has been used (an editor moving a map point), and used
        # again; the axis must answer like a new axis object holding the same map (replica oracle)
        from fontTools.designspaceLib import AxisDescriptor

        for a in doc.axes:
            if not (info["monotone"].get(a.name) and hasattr(a, "minimum") and a.map):
                continue
            for step in range(3):
                kind = r.choice(["scale", "shift", "append", "pop", "clear"])
                if kind == "scale":
                    for i, (u, d) in enumerate(a.map):
                        a.map[i] = (u, d * 2 + 1)
                elif kind == "shift":
                    for i, (u, d) in enumerate(a.map):
                        a.map[i] = (u, d + 10 * (i + 1))
                elif kind == "append":
                    u, d = max(a.map)
                    a.map.append((u + 50, max(x[1] for x in a.map) + 70))
                elif kind == "pop" and len(a.map) > 2:
                    a.map.pop(len(a.map) // 2)
                elif kind == "clear":
                    a.map.clear()
                fresh = AxisDescriptor(tag=a.tag, name=a.name, minimum=a.minimum, default=a.default, maximum=a.maximum, map=list(a.map))
                probes["B.mapedit"] = probes.get("B.mapedit", 0) + 1
                for _ in range(4):
                    v = r.choice([a.minimum, a.default, a.maximum, round(r.uniform(a.minimum, a.maximum), 3)])
                    f1, f2 = a.map_forward(v), fresh.map_forward(v)
                    b1, b2 = a.map_backward(f2), fresh.map_backward(f2)
                    if (f1 != f2 or b1 != b2) and not res.get("violation"):
                        fail("axis-map-stale-after-in-place-edit", "axis %r after %s of its map in place (now %r): forward(%r) = %r, a new axis with this map gives %r; backward(%r) = %r vs %r" % (a.name, kind, a.map, v, f1, f2, f2, b1, b2))
                    if not math.isclose(b1, v, rel_tol=1e-9, abs_tol=1e-6) and not res.get("violation"):
                        fail("axis-map-inverse", "axis %r map %r (edited in place): backward(forward(%r)) = %r" % (a.name, a.map, v, b1))
                if not a.map:
                    break
    finally:
        shutil.rmtree(scratch, ignore_errors=True)
    if res.get("violation"):
        from props import c19

        c19._match_known(h, res)
    return res
