"""C01 — recompiling is lossless and reaches a fixed point (facet + corpus sweep).

What simulation contributes: the state/history half of the statement — tables the
caller never touched are carried through byte for byte, whatever the lazy mode,
access order and the way the source stream delivers its bytes — checked against a
`tag -> bytes` reference model read by an independent container reader.
"""
import io
import logging
import os
import shutil
import struct
import tempfile

from sim import corpus, prng
from sim.stream import SimReadStream
from oracles import container, foreign

ID = "C01"
LEVEL = "exploration"
RUN_TIMEOUT_S = 240
RULE = (
    "each evaluation is one seeded configuration of one corpus file (every binary font, TTC member, WOFF/WOFF2 and every "
    "complete TTX-derived font): source kind (bytes, seekable/unseekable SimStream, short reads, scratch path) x lazy mode x "
    "recalcBBoxes x a seeded touch set in seeded order (or 'everything'), saved, reloaded and saved again; judged against the "
    "tag->bytes model of the source. Non-trivial = at least one table was decoded and re-encoded; distinct = distinct history digest"
)
STATES_MEASURE = "distinct (file, member, lazy, closure of the touch set) tuples"
COMPONENTS_REAL = ["fontTools.ttLib (TTFont, SFNTReader/Writer, every table's decompile/compile)", "cffLib", "zlib", "brotli"]
COMPONENTS_STUB = ["source streams (SimReadStream: unseekable, short reads)", "scratch paths", "independent tag->bytes reader as reference model"]
ASSUMPTIONS = [
    "inputs are the vendored corpus (no generated fonts: not this technique)",
    "content equality of re-encoded tables is judged by fontTools' own toXML dump, used as a comparator only",
    "for WOFF2 sources the tag->bytes model of transformed tables comes from fontTools' own reconstruction",
    "the dependency closure of a touch set is an over-approximation measured on the pinned tree and widened by code reading",
]
EXPECTED_PROBES = ["foreign.fvar", "foreign.post", "foreign.cmap", "foreign.GPOS", "foreign.glyf", "foreign.VDMX", "foreign.hdmx", "foreign.LTSH", "passthrough.no_decoder_checked", "passthrough.tables_checked", "content.tables_checked", "fixedpoint.checked", "source.short", "source.unseekable", "lazy.True"]

TIERS = {
    "quick": {"budget_s": 600, "determinism_sample": 12, "n": {"sweep": 9000}, "minimise_s": 40, "max_minimise": 3},
    "thorough": {"budget_s": 5400, "determinism_sample": 120, "n": {"sweep": 40000}, "minimise_s": 120, "max_minimise": 6},
}

# ---------------------------------------------------------------------------
# which tables may become loaded when a table is touched and the font is saved
# (measured over the corpus in all three lazy modes, then widened; may only over-approximate)

GLYPHORDER = {"CFF ", "CFF2", "maxp", "post", "cmap"}
DEP = {
    "glyf": {"head", "loca", "maxp", "post", "cmap", "hhea", "hmtx", "vhea", "vmtx"},
    "loca": {"head", "maxp", "post", "cmap"},
    "gvar": {"fvar", "glyf", "head", "loca", "maxp", "post", "cmap", "hhea", "hmtx", "vhea", "vmtx"},
    "cvar": {"fvar", "cvt "},
    "hmtx": GLYPHORDER | {"hhea"},
    "vmtx": GLYPHORDER | {"vhea"},
    "hhea": {"hmtx"} | GLYPHORDER,
    "vhea": {"vmtx"} | GLYPHORDER,
    "maxp": GLYPHORDER | {"head", "hmtx", "hhea", "glyf", "loca"},
    "head": GLYPHORDER | {"glyf", "loca"},
    "OS/2": GLYPHORDER | {"head", "bhed"},
    "GDEF": GLYPHORDER | {"fvar"},
    "HVAR": GLYPHORDER | {"fvar"},
    "VVAR": GLYPHORDER | {"fvar"},
    "MVAR": {"fvar"},
    "avar": {"fvar"},
    "STAT": set(),
    "Glat": GLYPHORDER | {"Gloc"},
    "Gloc": {"head", "maxp"},
    "EBDT": GLYPHORDER | {"EBLC"},
    "CBDT": GLYPHORDER | {"CBLC"},
    "EBLC": GLYPHORDER | {"EBDT"},
    "CBLC": GLYPHORDER | {"CBDT"},
    "bdat": GLYPHORDER | {"bloc"},
    "bloc": GLYPHORDER | {"bdat"},
    "hdmx": GLYPHORDER,
    "LTSH": GLYPHORDER,
    "VORG": GLYPHORDER,
    "kern": GLYPHORDER,
    "post": {"maxp", "cmap", "CFF "},
    "CFF ": set(),
    "CFF2": {"maxp", "post", "cmap", "fvar"},
    "name": set(),
    "fvar": set(),
    "cvt ": set(),
    "fpgm": set(),
    "prep": set(),
    "gasp": set(),
    "DSIG": set(),
    "meta": set(),
    "FFTM": set(),
}
PLAIN = {"name", "fvar", "cvt ", "fpgm", "prep", "gasp", "DSIG", "meta", "FFTM", "STAT", "avar", "MVAR", "CFF "}


RECALCULATED = {"head", "hhea", "vhea", "maxp", "CFF ", "glyf", "loca"}

import re

# (of post only the <extraNames> list - a <psName> with just a name - is masked: the compiler rebuilds that list;
# the glyph name -> PostScript name mapping lines are content)
_MASK = re.compile(r'^\s*<(?:(?:checkSumAdjustment|indexToLocFormat|usFirstCharIndex|usLastCharIndex) [^>]*|psName name="[^"]*")/>\s*$', re.M)


def mask_derived(xml):
    """Drops fields that are recomputed on every compile whatever the flags: the whole-file checksum,
    OS/2 first/last character index, and the list of extra PostScript names kept by 'post'."""
    return "\n".join(ln for ln in _MASK.sub("", xml).splitlines() if ln.strip())


def closure(tags, present):
    out = set(tags)
    work = list(tags)
    while work:
        t = work.pop()
        for d in DEP.get(t, GLYPHORDER):
            if d in present and d not in out:
                out.add(d)
                work.append(d)
    return out


# ---------------------------------------------------------------------------


_DONORS = []


def _cmap_donors():
    """Raw cmap subtables in formats fontTools keeps as opaque data (8, 10), from the AOTS corpus fonts."""
    if not _DONORS:
        for rel in corpus.binaries():
            if "/cmap8_" in rel or "/cmap10_" in rel:
                try:
                    p = foreign.cmap_subtables(container.tables_of(corpus.raw(rel))["cmap"])
                except Exception:
                    p = None
                if p:
                    for d in p[1].values():
                        if struct.unpack_from(">H", d, 0)[0] in (8, 10) and d not in _DONORS:
                            _DONORS.append(d)
    return _DONORS


def _inputs():
    out = []
    for rel in corpus.binaries():
        out.append(("bin", rel, 0))
    for rel in corpus.containers():
        if rel.endswith(".dfont"):
            continue
        if rel.endswith((".ttc", ".otc")):
            try:
                n = len(container.ttc_offsets(corpus.raw(rel)))
            except Exception:
                n = 0
            for i in range(n):
                out.append(("bin", rel, i))
        else:
            out.append(("bin", rel, 0))
    for rel in corpus.ttx_files():
        out.append(("ttx", rel, 0))
    # table samples embedded in the repository's table unit tests (kern, mort, morx, trak, ... - kinds no
    # corpus font has), each carried by a small TrueType font
    for k in corpus.blob_keys():
        out.append(("blob", k, 0))
    return out


def prepare(ctx):
    ins = _inputs()
    ctx.world["inputs"] = ins
    return {"inputs": len(ins), "binary_or_container_members": sum(1 for i in ins if i[0] == "bin"), "ttx": sum(1 for i in ins if i[0] == "ttx")}


def batches(ctx):
    return [{"name": "sweep", "n": ctx.opts["cfg"]["n"]["sweep"], "fault_free": True}]


def _source_bytes(kind, rel):
    if kind == "bin":
        return corpus.raw(rel)
    if kind == "blob":
        return corpus.blob_font(rel)
    # a TTX file is an input only if it is a complete font: compiling it, decoding every table
    # and saving must work at all (partial dumps and hand-made invalid masters are not fonts)
    g = corpus.compute_gen2_cached("ttx:" + rel)
    if isinstance(g, str) and g.startswith(("exc:", "no-head")):
        return None
    # complete TTX files become inputs through their (first-generation) compiled form
    k = ("ttxsrc", rel)
    if k not in corpus._cache:
        from fontTools.ttLib import TTFont

        try:
            f = TTFont(recalcTimestamp=False)
            f.importXML(corpus.path(rel))
            b = io.BytesIO()
            f.save(b)
            corpus._cache[k] = b.getvalue()
        except Exception:
            corpus._cache[k] = None
    return corpus._cache[k]


def generate(ctx, batch, idx):
    r = ctx.rng(batch, idx)
    ins = ctx.world.get("inputs") or _inputs()
    # walk the corpus systematically (idx) and add seeded configuration on top
    kind, rel, member = ins[idx % len(ins)] if r.random() < 0.7 else r.choice(ins)
    if _source_bytes(kind, rel) is None:
        return None
    mode = r.choice(["none", "one", "one", "few", "few", "all", "all"])
    return {
        "kind": "sweep",
        "src": [kind, rel, member],
        "source": r.choice(["bytesio", "simstream", "unseekable", "short", "path"]),
        "lazy": r.choice([None, True, False]),
        "recalcBBoxes": r.random() < 0.7,
        "mode": mode,
        "via": r.choice(["getitem", "getitem", "get", "ensure_table", "contains_then_getitem"]),
        "ops": [["touch", r.randrange(1 << 16)] for _ in range({"none": 0, "one": 1, "few": r.randint(2, 5), "all": 0}[mode])],
        "probe_keys": r.random() < 0.5,
        # transplant tables the library has no decoder for (sfnt sources only)
        # tables as another conforming writer stores them (oracles.foreign; sfnt sources only)
        "foreign": {"cmap": r.randrange(1 << 30) if r.random() < 0.12 else None, "gpos": r.randrange(1 << 30) if r.random() < 0.12 else None, "glyf": r.randrange(1 << 30) if r.random() < 0.12 else None, "dev": r.randrange(1 << 30) if r.random() < 0.1 else None, "post": r.randrange(1 << 30) if r.random() < 0.1 else None, "fvar": r.randrange(1 << 30) if r.random() < 0.25 else None},
        "opaque": [[r.choice(["ZZZZ", "Xtra", "zz  ", "TeSt"]), r.choice([0, 1, 2, 3, 4, 7, 64]), r.choice(["nuls", "random", "nul-tail"]), r.randrange(1 << 30)] for _ in range(r.choice([0, 0, 1, 2]))],
    }


# ---------------------------------------------------------------------------


def _open(src, h, scratch, rng, member):
    from fontTools.ttLib import TTFont

    kw = dict(lazy=h["lazy"], recalcBBoxes=h["recalcBBoxes"], recalcTimestamp=False)
    if container.kind_of(src) == "ttc":
        kw["fontNumber"] = member
    kind = h["source"]
    if h["lazy"] and kind in ("unseekable", "short", "simstream"):
        kind = "path" if kind != "simstream" else "bytesio"
    if kind == "path":
        p = os.path.join(scratch, "src.bin")
        with open(p, "wb") as f:
            f.write(src)
        return TTFont(p, **kw), "path"
    if kind == "simstream":
        return TTFont(SimReadStream(src, rng=rng, seekable=True), **kw), kind
    if kind == "unseekable":
        return TTFont(SimReadStream(src, rng=rng, seekable=False), **kw), kind
    if kind == "short":
        return TTFont(SimReadStream(src, rng=rng, short=True, seekable=rng.random() < 0.5), **kw), kind
    return TTFont(io.BytesIO(src), **kw), "bytesio"


def _model(src, member):
    """tag -> bytes of the source, by the independent reader (WOFF2: fontTools' reconstruction)."""
    k = container.kind_of(src)
    if k == "woff2":
        from fontTools.ttLib import TTFont

        f = TTFont(io.BytesIO(src), lazy=True)
        return {t: f.reader[t] for t in f.reader.keys()}, "woff2"
    return container.tables_of(src, fontNumber=member), k


def _dump(tag, data, context_tabs, sfnt_version):
    """Canonical content of one table: fontTools' own toXML on a font rebuilt from (context) bytes."""
    from fontTools.ttLib import TTFont

    img = container.rebuild_sfnt(sfnt_version, context_tabs)
    f = TTFont(io.BytesIO(img), lazy=False, recalcTimestamp=False)
    s = io.StringIO()
    f.saveXML(s, tables=[tag], writeVersion=False)
    return s.getvalue()


def execute(ctx, h):
    lvl = logging.root.manager.disable
    logging.disable(logging.CRITICAL)
    scratch = tempfile.mkdtemp(prefix="verif-c01-")
    try:
        return _execute(ctx, h, scratch)
    finally:
        shutil.rmtree(scratch, ignore_errors=True)
        logging.disable(lvl)


def _execute(ctx, h, scratch):
    from fontTools.ttLib import TTFont

    events, probes = [], {}
    res = {"events": events, "probes": probes, "faults": {}, "states": [], "known": [], "nontrivial": False}
    kind, rel, member = h["src"]
    src = _source_bytes(kind, rel)
    if src is None:
        return res
    rng = prng.sub("c01", prng.digest(h))

    def fail(cls, detail, **sig):
        if not res.get("violation"):
            res["violation"] = {"class": cls, "detail": detail + " [%s member=%d lazy=%s source=%s mode=%s]" % (rel, member, h["lazy"], h["source"], h["mode"]), "sig": dict(sig, font=rel)}

    if h.get("opaque") and container.kind_of(src) == "sfnt":
        try:
            tabs = container.tables_of(src)
            for tag, n, how, seed in h["opaque"]:
                rr = prng.sub("opaque", seed)
                body = bytes(rr.randrange(1, 256) for _ in range(n))
                if how == "nuls":
                    body = b"\0" * n
                elif how == "nul-tail":
                    body = body + b"\0" * rr.randint(1, 5)
                if tag not in tabs:
                    tabs[tag] = body
            src = container.rebuild_sfnt(src[:4], tabs)
            probes["opaque_tables_transplanted"] = 1
        except Exception:
            pass
    foreign_tags = []
    fg = h.get("foreign") or {}
    if any(fg.get(k_) is not None for k_ in ("cmap", "gpos", "glyf", "dev", "post", "fvar")) and container.kind_of(src) == "sfnt":
        try:
            tabs = dict(container.tables_of(src))
            if fg.get("cmap") is not None and "cmap" in tabs:
                c = foreign.cmap_multiplex(tabs["cmap"], _cmap_donors(), prng.sub("fcmap", fg["cmap"]))
                if c is not None:
                    tabs["cmap"] = c
                    foreign_tags.append("cmap")
            if fg.get("gpos") is not None and "maxp" in tabs and len(tabs["maxp"]) >= 6:
                g = (foreign.gpos_devices if fg["gpos"] % 3 == 0 else foreign.gpos_unsorted)(struct.unpack_from(">H", tabs["maxp"], 4)[0], prng.sub("fgpos", fg["gpos"]))
                if g is not None:
                    tabs["GPOS"] = g[0]
                    foreign_tags.append("GPOS")
            if fg.get("fvar") is not None and "fvar" in tabs:
                fv_ = foreign.fvar_partial_psnames(tabs["fvar"], prng.sub("ffvar", fg["fvar"]))
                if fv_ is not None:
                    tabs["fvar"] = fv_
                    foreign_tags.append("fvar")
            if fg.get("dev") is not None and "glyf" in tabs and "maxp" in tabs and len(tabs["maxp"]) >= 6:
                # device-metrics tables of rasteriser-tuned TrueType fonts (no corpus font has them)
                rr = prng.sub("fdev", fg["dev"])
                ng_ = struct.unpack_from(">H", tabs["maxp"], 4)[0]
                for t, mk in (("VDMX", lambda: foreign.vdmx(rr)), ("hdmx", lambda: foreign.hdmx(ng_, rr)), ("LTSH", lambda: foreign.ltsh(ng_, rr)), ("VORG", lambda: foreign.vorg(ng_, rr))):
                    if t not in tabs and rr.random() < 0.7:
                        tabs[t] = mk()
                        foreign_tags.append(t)
            if fg.get("post") is not None and "glyf" in tabs and "post" in tabs and "maxp" in tabs and len(tabs["maxp"]) >= 6:
                pt = foreign.post2(tabs["post"], struct.unpack_from(">H", tabs["maxp"], 4)[0], prng.sub("fpost", fg["post"]))
                if pt is not None:
                    tabs["post"] = pt
                    foreign_tags.append("post")
            if fg.get("glyf") is not None and "glyf" in tabs:
                rr = prng.sub("fglyf", fg["glyf"])
                v = container.foreign_variant(container.rebuild_sfnt(src[:4], tabs), longloca=rr.random() < 0.4, loosebbox=rr.choice([None, rr.randrange(1 << 16)]), compflags=rr.choice([None, rr.randrange(1 << 16), rr.randrange(1 << 16)]), emptyinstr=rr.choice([None, rr.randrange(1 << 16)]))
                if v is not None:
                    tabs = dict(container.tables_of(v))
                    foreign_tags.append("glyf")
            if foreign_tags:
                fsrc = container.rebuild_sfnt(src[:4], tabs)
                if container.validate_any(fsrc)[2]:
                    raise AssertionError("foreign variant is not a valid container")
                src = fsrc
                for t in foreign_tags:
                    probes["foreign." + t.strip()] = 1
        except (struct.error, KeyError, IndexError, ValueError):
            foreign_tags = []  # a source whose own directory / cmap the independent reader cannot follow
    try:
        model, ckind = _model(src, member)
    except Exception as e:
        events.append(["model-failed", type(e).__name__])
        return res
    try:
        font, how = _open(src, h, scratch, rng, member)
    except Exception as e:
        # a corpus file the loader does not accept is outside the quantifier
        events.append(["not-openable", type(e).__name__])
        probes["unopenable"] = 1
        return res
    probes["source." + how] = 1
    probes["lazy.%s" % h["lazy"]] = 1
    tags = [t for t in font.keys() if t != "GlyphOrder"]
    present = set(tags)
    if set(model) != present:
        fail("directory-differs-from-model", "font lists %s, independent reader %s" % (sorted(present ^ set(model)), ""))
        return res
    if h["probe_keys"]:
        # observational API must not decode anything
        font.keys()
        for t in tags:
            assert t in font
        font.has_key("zzzz")
        len(font)
        if [t for t in font.tables if t != "GlyphOrder"]:
            fail("keys-or-contains-decodes-tables", "after keys()/in/len: loaded %s" % sorted(font.tables))
            return res
    touched = []
    try:
        if h["mode"] == "all":
            font.ensureDecompiled()
            touched = list(tags)
        else:
            for name, k in h["ops"]:
                t = tags[k % len(tags)]
                via = h["via"]
                if via == "get":
                    font.get(t)
                elif via == "contains_then_getitem":
                    if t in font:
                        font[t]
                elif via == "ensure_table":
                    tb = font[t]
                    if hasattr(tb, "ensureDecompiled"):
                        tb.ensureDecompiled()
                else:
                    font[t]
                touched.append(t)
            if h["mode"] != "none":
                for t in foreign_tags:
                    tb = font[t]
                    if hasattr(tb, "ensureDecompiled"):
                        tb.ensureDecompiled()
                    touched.append(t)
    except Exception as e:
        # a table of a corpus font that cannot be decoded: not a recompile case (C20's business)
        events.append(["undecodable", type(e).__name__])
        probes["undecodable_table"] = 1
        return res
    out = io.BytesIO()
    try:
        font.save(out)
    except Exception as e:
        if touched:
            import traceback

            tb = traceback.extract_tb(e.__traceback__)
            fail("recompile-raises:" + type(e).__name__, "save after touching %s raised %s: %s (at %s:%s)" % (touched[:6], type(e).__name__, str(e)[:100], os.path.basename(tb[-1].filename), tb[-1].name), exc=type(e).__name__, touched=sorted(set(touched))[:4])
        else:
            fail("passthrough-save-raises:" + type(e).__name__, "saving an untouched font raised: %s" % str(e)[:100])
        _known(h, res)
        return res
    loaded = set(t for t in font.tables if t != "GlyphOrder")
    g1 = out.getvalue()
    res["nontrivial"] = bool(loaded)
    events.append([rel, member, sorted(touched), sorted(loaded), prng.bdigest(g1)])
    # oracle 0: nothing outside the dependency closure of the touch set was decoded
    clo = closure(touched, present)
    extra = sorted(loaded - clo)
    if extra and h["mode"] != "all":
        fail("tables-decoded-without-being-touched", "touched %s (closure %s) but %s were decoded by access/save" % (sorted(set(touched)), sorted(clo - set(touched)), extra), extra=extra)
    res["states"].append("%s|%d|%s|%s" % (rel, member, h["lazy"], ",".join(sorted(clo))))
    # oracle 1: untouched tables pass through byte for byte
    try:
        got, gkind = _model(g1, 0)
    except Exception as e:
        fail("output-unreadable", "independent reader failed on the saved file: %s" % e)
        return res
    if set(got) != present:
        fail("table-set-changed", "saved file has %s" % sorted(set(got) ^ present))
    for t in sorted(present - loaded):
        a, b = model[t], got.get(t)
        if t == "head" and a is not None and b is not None and len(a) >= 12 and len(b) >= 12:
            a, b = a[:8] + a[12:], b[:8] + b[12:]  # checkSumAdjustment is owned by the container
        probes["passthrough.tables_checked"] = probes.get("passthrough.tables_checked", 0) + 1
        if a != b:
            fail("untouched-table-not-carried-through:" + t.strip(), "table %r was never decoded but its bytes changed (%d -> %d bytes)" % (t, len(model[t]), len(got.get(t) or b"")), tag=t)
            break
    # oracle 1b: tables without a decoder are carried through byte for byte even when touched
    from fontTools.ttLib.tables.DefaultTable import DefaultTable

    for t in sorted(loaded):
        if type(font.tables[t]) is DefaultTable and not res.get("violation"):
            probes["passthrough.no_decoder_checked"] = probes.get("passthrough.no_decoder_checked", 0) + 1
            if model[t] != got.get(t):
                fail("undecoded-table-not-carried-through:" + t.strip(), "table %r has no decoder and was touched; %d source bytes came back as %d bytes" % (t, len(model[t]), len(got.get(t) or b"")), tag=t)
    # oracle 2: decoded tables keep their content (canonical dump of source bytes == dump of saved bytes).
    # Fields the library recalculates on save are C04's business and are masked here; with
    # recalcBBoxes=True the tables that consist of / carry recalculated extents are skipped.
    if loaded and not res.get("violation"):
        sample = sorted(loaded)
        if h["recalcBBoxes"]:
            sample = [t for t in sample if t not in RECALCULATED]
        if len(sample) > 4:
            sample = prng.sub("content", prng.digest(h)).sample(sample, 4)
        sample += [t for t in foreign_tags if t in loaded and t not in sample and not (h["recalcBBoxes"] and t in RECALCULATED)]
        for t in sample:
            if model[t] == got.get(t):
                probes["content.byte_identical"] = probes.get("content.byte_identical", 0) + 1
                continue
            try:
                da = _dump(t, model[t], model, src[:4] if ckind == "sfnt" else (b"OTTO" if "CFF " in model or "CFF2" in model else b"\0\1\0\0"))
            except Exception as e:
                probes["content.source_dump_failed"] = probes.get("content.source_dump_failed", 0) + 1
                continue
            try:
                db = _dump(t, got[t], got, g1[:4] if gkind == "sfnt" else (b"OTTO" if "CFF " in got or "CFF2" in got else b"\0\1\0\0"))
            except Exception as e:
                fail("recompiled-table-undecodable:" + t.strip(), "table %r decodes in the source but its recompiled form raises %s: %s" % (t, type(e).__name__, str(e)[:100]), tag=t)
                break
            probes["content.tables_checked"] = probes.get("content.tables_checked", 0) + 1
            da, db = mask_derived(da), mask_derived(db)
            if da != db:
                import difflib

                dl = [ln for ln in difflib.unified_diff(da.splitlines(), db.splitlines(), lineterm="", n=0) if ln[:1] in "+-" and ln[:3] not in ("+++", "---")]
                fail("recompiled-table-content-differs:" + t.strip(), "table %r decodes to different content after recompiling: %s" % (t, dl[:4]), tag=t)
                break
    # oracle 3: second generation reproduces the first byte for byte (when everything was decoded)
    if h["mode"] == "all" and not res.get("violation") and gkind in ("sfnt", "woff"):
        try:
            f2 = TTFont(io.BytesIO(g1), lazy=h["lazy"], recalcBBoxes=h["recalcBBoxes"], recalcTimestamp=False)
            f2.ensureDecompiled()
            o2 = io.BytesIO()
            f2.save(o2)
            g2 = o2.getvalue()
        except Exception as e:
            fail("second-generation-raises:" + type(e).__name__, "gen-1 cannot be recompiled: %s" % str(e)[:120])
            g2 = None
        if g2 is not None:
            probes["fixedpoint.checked"] = probes.get("fixedpoint.checked", 0) + 1
            if g2 != g1:
                try:
                    t2, _ = _model(g2, 0)
                    dt = [t for t in sorted(set(got) | set(t2)) if got.get(t) != t2.get(t)]
                except Exception:
                    dt = ["?"]
                fail("not-a-fixed-point:" + ",".join(x.strip() for x in dt), "gen-2 differs from gen-1 in %s" % dt, tags=dt)
    if res.get("violation"):
        _known(h, res)
    return res


def _known(h, res):
    from sim import runner

    v = res["violation"]
    for e in runner.load_known(ID):
        m = e["match"]
        if m.get("class") and m["class"] != v["class"]:
            continue
        if m.get("class_prefix") and not v["class"].startswith(m["class_prefix"]):
            continue
        sig = v.get("sig") or {}
        if any(sig.get(k) != val for k, val in m.get("sig", {}).items()):
            continue
        if "detail_contains" in m and m["detail_contains"] not in v.get("detail", ""):
            continue
        res["known"].append({"id": e["id"], "text": e["text"]})
        res["violation"] = None
        return


def simplify(ctx, h):
    import copy

    for k, v in (("source", "bytesio"), ("recalcBBoxes", True), ("probe_keys", False), ("via", "getitem")):
        if h.get(k) != v:
            c = copy.deepcopy(h)
            c[k] = v
            yield c
    if h.get("lazy") is not None:
        c = copy.deepcopy(h)
        c["lazy"] = None
        yield c
    for k in ("cmap", "gpos", "glyf", "dev", "post", "fvar"):
        if (h.get("foreign") or {}).get(k) is not None:
            c = copy.deepcopy(h)
            c["foreign"][k] = None
            yield c
    if h.get("opaque"):
        c = copy.deepcopy(h)
        c["opaque"] = []
        yield c
