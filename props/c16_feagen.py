"""Seeded generator of feature files over the glyph set of c16_pipes.fea_font().

The corpus feature files are single-purpose test inputs; none of them combines several
`languagesystem` statements with script/language blocks, `aalt`, shared named lookups, class
kerning, mark classes and name-allocating statements, which is where feaLib and otlLib number
things (features per language system, lookups, classes, alternates, name IDs) from sets and
dicts. The text is a pure function of the PRNG; compiling it must give the same bytes (or the
same exception type) in every process."""

LANGSYS = [("latn", "dflt"), ("latn", "TRK "), ("latn", "NLD "), ("cyrl", "dflt"), ("cyrl", "SRB "), ("grek", "dflt"), ("arab", "dflt"), ("arab", "URD ")]
UC = list("ABCDEFGHIJKLMNOPQRSTUVWXYZ")
LC = list("abcdefghijklmnopqrstuvwxyz")
DIGITS = "zero one two three four five six seven eight nine".split()
ALTS = {
    "A": ["A.alt1", "A.alt2", "A.alt3", "A.swash", "A.sc"],
    "B": ["B.alt1", "B.alt2", "B.alt3", "B.swash", "B.sc"],
    "C": ["C.alt1", "C.alt2", "C.alt3", "C.swash", "C.sc"],
    "a": ["a.alt1", "a.alt2", "a.alt3", "a.end", "A.sc"],
    "b": ["b.alt", "B.sc"],
    "c": ["c.mid", "C.sc"],
    "d": ["d.alt", "d.mid", "D.sc"],
    "e": ["e.begin", "e.mid", "e.end", "e.fina", "E.sc"],
    "m": ["m.begin", "M.sc"],
    "n": ["n.end", "N.sc"],
    "s": ["s.end", "S.sc"],
    "z": ["z.end", "Z.sc"],
    "Eng": ["Eng.alt1", "Eng.alt2", "Eng.alt3"],
    "one": ["one.oldstyle", "onesuperior"],
    "two": ["two.oldstyle", "twosuperior"],
    "three": ["three.oldstyle", "threesuperior"],
}
LIGS = [("f l", "f_l"), ("c h", "c_h"), ("c k", "c_k"), ("c s", "c_s"), ("c t", "c_t"), ("f f", "f_f"), ("f f i", "f_f_i"), ("f f l", "f_f_l"), ("f i", "f_i"), ("o f f i", "o_f_f_i"), ("s t", "s_t"), ("a n d", "a_n_d"), ("T h", "T_h"), ("lam_meem_jeem noon.final", "noon.initial")]
MARKS = "grave acute dieresis macron circumflex cedilla umlaut ogonek caron breve acutecomb brevecomb ogonekcomb dotbelowcomb damma hamza sukun kasratan".split()
SUB_FEATURES = ["salt", "ss01", "ss02", "ss03", "smcp", "c2sc", "calt", "liga", "dlig", "locl", "onum", "swsh", "cv01", "init", "fina"]
POS_FEATURES = ["kern", "mark", "mkmk", "cpsp", "dist", "curs"]


def _cls(r, pool, lo=2, hi=6):
    k = min(len(pool), r.randint(lo, hi))
    return r.sample(pool, k)


SUB_KINDS = {"single": 0.1, "singles": 0.3, "alt": 0.5, "lig": 0.6, "mult": 0.75, "ctx": 0.8}
POS_KINDS = {"pair": 0.1, "single": 0.75}


def _sub_rule(r, names, kind=None):
    q = r.random()
    if kind:
        q = SUB_KINDS[kind]
        if kind == "single" and r.random() < 0.5:
            q = 0.3
    if q < 0.25:
        g = r.choice(sorted(ALTS))
        return "sub %s by %s;" % (g, r.choice(ALTS[g]))
    if q < 0.4:
        gs = _cls(r, sorted(ALTS), 2, 5)
        return "sub [%s] by [%s];" % (" ".join(gs), " ".join(r.choice(ALTS[g]) for g in gs))
    if q < 0.55:
        g = r.choice([k for k in sorted(ALTS) if len(ALTS[k]) > 1])
        alts = _cls(r, ALTS[g], 2, 4)
        return "sub %s from [%s];" % (g, " ".join(alts))
    if q < 0.7:
        comps, lig = r.choice(LIGS)
        return "sub %s by %s;" % (comps, lig)
    if q < 0.78:
        comps, lig = r.choice(LIGS[:13])
        return "sub %s by %s;" % (lig, comps)
    if q < 0.9:
        g = r.choice(sorted(ALTS))
        ctx = _cls(r, LC, 1, 3)
        if r.random() < 0.5:
            return "sub %s' [%s] by %s;" % (g, " ".join(ctx), r.choice(ALTS[g]))
        return "sub [%s] %s' by %s;" % (" ".join(ctx), g, r.choice(ALTS[g]))
    if names and q < 0.97:
        g = r.choice(sorted(ALTS))
        return "sub %s' lookup %s %s;" % (g, r.choice(names), r.choice(LC))
    return "ignore sub %s %s';" % (r.choice(LC), r.choice(sorted(ALTS)))


def _pos_rule(r, feature, classes, kind=None):
    q = r.random()
    if kind:
        q = r.choice([0.1, 0.3, 0.5]) if kind == "pair" else r.choice([0.75, 0.9])
    if feature in ("mark", "mkmk"):
        if feature == "mark":
            base = _cls(r, LC + UC, 1, 4)
            return "pos base [%s] <anchor %d %d> mark @TOP <anchor %d %d> mark @BOT;" % (" ".join(base), r.randint(100, 400), r.randint(400, 700), r.randint(100, 400), -r.randint(0, 200))
        m = r.choice(MARKS[:8])
        return "pos mark %s <anchor %d %d> mark @TOP;" % (m, r.randint(0, 100), r.randint(600, 800))
    if feature == "curs":
        return "pos cursive %s <anchor 0 %d> <anchor 500 %d>;" % (r.choice(LC), r.randint(0, 50), r.randint(0, 50))
    if q < 0.12 and len(classes) >= 2:
        # class kerning that is zero in design units and lives in a device table only (ppem-specific), or
        # has both: the cell is not empty
        a, b = r.sample(classes, 2)
        dev = "<device %s>" % ", ".join("%d %d" % (pp, r.choice([-2, -1, 1, 2])) for pp in sorted(r.sample(range(9, 16), r.randint(1, 3))))
        return "pos @%s @%s <0 0 %d 0 <device NULL> <device NULL> %s <device NULL>>;" % (a, b, r.choice([0, 0, 0, -15]), dev)
    if q < 0.25:
        return "pos %s %s %d;" % (r.choice(UC), r.choice(UC + LC), -r.randint(1, 120))
    if q < 0.45:
        return "%spos [%s] [%s] %d;" % ("enum " if r.random() < 0.4 else "", " ".join(_cls(r, UC, 1, 4)), " ".join(_cls(r, LC, 1, 4)), -r.randint(1, 90))
    if q < 0.7 and len(classes) >= 2:
        a, b = r.sample(classes, 2)
        return "pos @%s @%s %d;" % (a, b, -r.randint(1, 60))
    if q < 0.85:
        return "pos %s <%d 0 %d 0>;" % (r.choice(UC + LC + DIGITS), r.randint(-20, 20), r.randint(-40, 40))
    if q < 0.93:
        return "pos [%s] %d;" % (" ".join(_cls(r, UC + LC, 2, 6)), r.randint(-30, 30))
    return "pos %s' %d %s;" % (r.choice(UC), -r.randint(1, 50), r.choice(LC))


def _per_script_body(r, langsys):
    """The same glyphs substituted differently per script, after a rule for every language system."""
    out = []
    gs = _cls(r, [k for k in sorted(ALTS) if len(ALTS[k]) >= 3], 1, 3)
    if r.random() < 0.8:
        other = r.choice([k for k in sorted(ALTS) if k not in gs])
        out.append("sub %s by %s;" % (other, r.choice(ALTS[other])))
    scripts = sorted({s for s, _ in langsys})
    r.shuffle(scripts)
    for s in scripts:
        out.append("script %s;" % s)
        for g in gs:
            out.append("sub %s by %s;" % (g, r.choice(ALTS[g])))
        langs = [lg for sc, lg in langsys if sc == s and lg != "dflt"]
        if langs and r.random() < 0.5:
            out.append("language %s%s;" % (r.choice(langs).strip(), r.choice(["", " exclude_dflt"])))
            g = r.choice(gs)
            out.append("sub %s by %s;" % (r.choice(LC[10:]), r.choice(ALTS[g])))
    return out


def _body(r, feature, langsys, names, classes, is_pos):
    out = []
    if not is_pos and len(langsys) >= 2 and r.random() < 0.3:
        return _per_script_body(r, langsys)
    n = r.randint(1, 7)
    scripts = sorted({s for s, _ in langsys})
    for i in range(n):
        q = r.random()
        if scripts and q < 0.25 and feature not in ("aalt", "size"):
            s = r.choice(scripts)
            out.append("script %s;" % s)
            langs = [lg for sc, lg in langsys if sc == s and lg != "dflt"]
            if langs and r.random() < 0.6:
                out.append("language %s%s;" % (r.choice(langs).strip(), r.choice(["", "", " exclude_dflt", " include_dflt"])))
        elif q < 0.32:
            out.append("lookupflag %s;" % r.choice(["0", "IgnoreMarks", "IgnoreLigatures", "RightToLeft", "IgnoreBaseGlyphs IgnoreMarks", "MarkAttachmentType @TOPM", "UseMarkFilteringSet @BOTM"]))
        elif names and q < 0.45:
            out.append("lookup %s;" % r.choice(names))
        else:
            out.append(_pos_rule(r, feature, classes) if is_pos else _sub_rule(r, names))
    return out


def generate(r):
    """Feature-file text."""
    lines = []
    langsys = [ls for ls in LANGSYS if r.random() < 0.5]
    if r.random() < 0.85:
        lines.append("languagesystem DFLT dflt;")
    # declaration order is itself a knob
    r.shuffle(langsys)
    declared = set()
    for s, lg in langsys:
        if lg != "dflt" and (s, "dflt") not in declared and r.random() < 0.7:
            lines.append("languagesystem %s dflt;" % s)
            declared.add((s, "dflt"))
        if (s, lg) not in declared:
            lines.append("languagesystem %s %s;" % (s, lg.strip()))
            declared.add((s, lg))
    classes = []
    for name, pool in (("UC1", UC), ("UC2", UC), ("LC1", LC), ("LC2", LC), ("DG", DIGITS)):
        if r.random() < 0.7:
            lines.append("@%s = [%s];" % (name, " ".join(_cls(r, pool, 2, 8))))
            classes.append(name)
    top = _cls(r, MARKS[:9], 2, 5)
    bot = _cls(r, MARKS[9:], 2, 5)
    lines.append("@TOPM = [%s];" % " ".join(top))
    lines.append("@BOTM = [%s];" % " ".join(bot))
    for m in top:
        lines.append("markClass %s <anchor %d %d> @TOP;" % (m, r.randint(0, 50), r.randint(400, 600)))
    for m in bot:
        lines.append("markClass %s <anchor %d %d> @BOT;" % (m, r.randint(0, 50), -r.randint(0, 100)))
    names = []
    for i in range(r.randint(0, 4)):
        nm = "L%d" % i
        is_pos = r.random() < 0.35
        kind = r.choice(sorted(POS_KINDS if is_pos else SUB_KINDS))
        if kind == "singles":
            kind = "single"
        body = [(_pos_rule(r, "kern", classes, kind) if is_pos else _sub_rule(r, [], kind)) for _ in range(r.randint(1, 3))]
        lines.append("lookup %s%s {\n  %s\n} %s;" % (nm, " useExtension" if r.random() < 0.15 else "", "\n  ".join(body), nm))
        names.append((nm, is_pos))
    subnames = [n for n, p in names if not p]
    posnames = [n for n, p in names if p]
    feats = []
    pool = [f for f in SUB_FEATURES if r.random() < 0.4] + [f for f in POS_FEATURES if r.random() < 0.4]
    r.shuffle(pool)
    # the same feature tag may be opened twice
    if pool and r.random() < 0.3:
        pool.append(r.choice(pool))
    aalt_at = r.randrange(len(pool) + 1) if r.random() < 0.6 else None
    used_sub = []
    for i, f in enumerate(pool):
        if aalt_at == i:
            feats.append(("aalt", None))
        is_pos = f in POS_FEATURES
        body = _body(r, f, langsys, posnames if is_pos else subnames, classes, is_pos)
        if f.startswith("ss") and r.random() < 0.6:
            body.insert(0, 'featureNames {\n    name "Style %s";\n    name 3 1 0x411 "S%s";\n  };' % (f, f))
        if f.startswith("cv") and r.random() < 0.6:
            body.insert(0, 'cvParameters {\n    FeatUILabelNameID { name "L"; };\n    ParamUILabelNameID { name "P1"; };\n    ParamUILabelNameID { name "P2"; };\n    Character 0x61;\n  };')
        feats.append((f, body))
        if not is_pos:
            used_sub.append(f)
    if aalt_at is not None and aalt_at >= len(pool):
        feats.append(("aalt", None))
    for f, body in feats:
        if f == "aalt":
            refs = r.sample(used_sub, min(len(used_sub), r.randint(1, 4))) if used_sub else []
            body = ["feature %s;" % x for x in refs]
            if r.random() < 0.4 or not body:
                g = r.choice(sorted(ALTS))
                body.append("sub %s by %s;" % (g, r.choice(ALTS[g])))
        lines.append("feature %s {\n  %s\n} %s;" % (f, "\n  ".join(body), f))
    if r.random() < 0.3:
        lines.append("feature size {\n  parameters 10.0 %s;\n} size;" % r.choice(["0", '3 80 139;\n  sizemenuname "Text";\n  sizemenuname 3 1 0x411 "T"']))
    if r.random() < 0.4:
        lig = [l for _, l in LIGS[:8]]
        lines.append("table GDEF {\n  GlyphClassDef [%s], [%s], [%s], ;\n%s} GDEF;" % (" ".join(_cls(r, LC + UC, 3, 10)), " ".join(_cls(r, lig, 1, 5)), " ".join(top + bot), ("  LigatureCaretByPos f_f_i 300 600;\n  LigatureCaretByPos f_i 300;\n" if r.random() < 0.5 else "")))
    if r.random() < 0.3:
        lines.append('table name {\n  nameid 9 "D";\n  nameid 9 3 1 0x411 "J";\n  nameid %d "X";\n} name;' % r.choice([7, 11, 13, 256]))
    if r.random() < 0.2:
        lines.append("table OS/2 {\n  TypoAscender 800;\n  winAscent 900;\n  UnicodeRange 0 1 %d;\n  CodePageRange 1252 %d;\n  Vendor \"VRF \";\n} OS/2;" % (r.choice([2, 9, 38]), r.choice([1251, 932, 1250])))
    if r.random() < 0.2:
        lines.append('table STAT {\n  ElidedFallbackName { name "Regular"; };\n  DesignAxis wght 0 { name "Weight"; };\n  DesignAxis opsz 1 { name "Size"; };\n  AxisValue { location wght %d; name "W"; %s};\n  AxisValue { location opsz 8 5 %d; name "C"; };\n} STAT;' % (r.choice([400, 700]), r.choice(["", "flag ElidableAxisValueName; "]), r.choice([10, 12])))
    return "\n".join(lines) + "\n"
