"""SimClock: the only clock fontTools sees (seam: fontTools.misc.timeTools.time)."""
import time as _realtime
import types


class SimClock(types.ModuleType):
    """Stands in for the `time` module inside fontTools.misc.timeTools.

    regime: "tick" (monotone, step per read), "jump" (seeded forward/backward
    jumps between reads), "frozen".
    """

    def __init__(self, start=1_600_000_000.0, step=1.0, regime="tick", rng=None):
        super().__init__("simclock")
        self.__dict__["now"] = float(start)
        self.__dict__["start"] = float(start)
        self.__dict__["step"] = step
        self.__dict__["regime"] = regime
        self.__dict__["rng"] = rng
        self.__dict__["reads"] = []
        self.__dict__["lo"] = float(start)
        self.__dict__["hi"] = float(start)

    def time(self):
        d = self.__dict__
        v = d["now"]
        d["reads"].append(v)
        if d["regime"] == "tick":
            d["now"] = v + d["step"]
        elif d["regime"] == "jump":
            r = d["rng"]
            k = r.random()
            if k < 0.3:
                d["now"] = v + r.random()  # sub-second tick
            elif k < 0.6:
                d["now"] = v + r.uniform(1, 10 * 365 * 86400)  # forward jump
            elif k < 0.9:
                d["now"] = max(0.0, v - r.uniform(1, 10 * 365 * 86400))  # backward jump
            else:
                d["now"] = r.uniform(0, 4_102_444_800.0)  # anywhere 1970..2100
        d["lo"] = min(d["lo"], d["now"])
        d["hi"] = max(d["hi"], d["now"])
        return v

    def gmtime(self, *a):
        return _realtime.gmtime(*a)

    def span(self):
        d = self.__dict__
        return d["hi"] - d["lo"]

    def __getattr__(self, n):
        return getattr(_realtime, n)
