"""SimFS: an in-memory file system behind fontTools' own FS seam.

* case-sensitive or case-insensitive-but-preserving (rule: str.lower(), the
  definition ufoLib and the UFO spec use);
* listdir returns a seeded permutation (directory order is not a promise);
* mtimes come from the simulator clock;
* every mutation is logged; a write that lands on an entry whose stored name
  differs (only possible on the case-insensitive variant) is recorded as
  `clobbered`, i.e. "a write replaced another name's file".
"""
import io

from fontTools.misc.filesystem._base import FS
from fontTools.misc.filesystem._info import Info
from fontTools.misc.filesystem import _errors as E


class SimFS(FS):
    def __init__(self, ci=False, rng=None, clock=None):
        super().__init__()
        self.ci = ci
        self.rng = rng
        self.clock = clock
        # key -> ("d", name) | ("f", name, bytes, mtime); key "" is the root
        self.nodes = {"": ("d", "")}
        self.log = []
        self.clobbered = []
        self.writes = 0
        # fault seam: the next open-for-writing fails like a full disk (set by the simulation)
        self.fail_next_write = False
        self.faults = 0

    # ---- helpers
    def _parts(self, p):
        out = []
        for x in str(p).replace("\\", "/").split("/"):
            if x in ("", "."):
                continue
            if x == "..":
                if out:
                    out.pop()
                continue
            out.append(x)
        return out

    def _k(self, p):
        parts = self._parts(p)
        k = "/".join(parts)
        return k.lower() if self.ci else k

    def _name(self, p):
        parts = self._parts(p)
        return parts[-1] if parts else ""

    @staticmethod
    def _parent(k):
        return k.rsplit("/", 1)[0] if "/" in k else ""

    def _now(self):
        return self.clock.time() if self.clock is not None else 0.0

    def _isdir(self, k):
        n = self.nodes.get(k)
        return n is not None and n[0] == "d"

    def _isfile(self, k):
        n = self.nodes.get(k)
        return n is not None and n[0] == "f"

    # ---- FS interface
    def open(self, path, mode="rb", **kw):
        self.check()
        k = self._k(path)
        if "r" in mode and "+" not in mode:
            if self._isdir(k):
                raise E.FileExpected(path)
            if not self._isfile(k):
                raise E.ResourceNotFound(path)
            data = self.nodes[k][2]
            if "b" in mode:
                return io.BytesIO(data)
            return io.StringIO(data.decode(kw.get("encoding") or "utf-8"), newline=kw.get("newline"))
        if self._isdir(k):
            raise E.FileExpected(path)
        if not self._isdir(self._parent(k)):
            raise E.ResourceNotFound(path)
        if self.fail_next_write:
            self.fail_next_write = False
            self.faults += 1
            self.log.append(("write-failed", k))
            raise OSError(28, "No space left on device (injected)", str(path))
        fsys = self
        name = self._name(path)
        prev = self.nodes.get(k)
        initial = prev[2] if (prev and "a" in mode) else b""

        class W(io.BytesIO):
            def close(s):
                if not s.closed:
                    fsys._store(k, name, s.getvalue())
                super().close()

        w = W()
        w.write(initial)
        if "b" in mode:
            return w
        return io.TextIOWrapper(w, encoding=kw.get("encoding") or "utf-8", newline=kw.get("newline", ""))

    def _store(self, k, name, data):
        prev = self.nodes.get(k)
        self.writes += 1
        if prev is not None and prev[1] != name:
            self.clobbered.append((prev[1], name))
            name = prev[1]  # case-preserving: the existing entry keeps its spelling
        self.nodes[k] = ("f", name, bytes(data), self._now())
        self.log.append(("write", k, len(data)))

    def exists(self, path):
        return self._k(path) in self.nodes

    def isdir(self, path):
        return self._isdir(self._k(path))

    def isfile(self, path):
        return self._isfile(self._k(path))

    def listdir(self, path):
        self.check()
        k = self._k(path)
        if not self._isdir(k):
            if self._isfile(k):
                raise E.DirectoryExpected(path)
            raise E.ResourceNotFound(path)
        pre = k + "/" if k else ""
        out = []
        for key in sorted(self.nodes):
            if key and key.startswith(pre) and "/" not in key[len(pre) :]:
                out.append(self.nodes[key][1])
        if self.rng is not None:
            self.rng.shuffle(out)
        return out

    def makedir(self, path, recreate=False):
        self.check()
        k = self._k(path)
        if k in self.nodes:
            if not recreate or not self._isdir(k):
                raise E.DestinationExists(path) if hasattr(E, "DestinationExists") else OSError(path)
        else:
            if not self._isdir(self._parent(k)):
                raise E.ResourceNotFound(path)
            self.nodes[k] = ("d", self._name(path))
            self.log.append(("mkdir", k))
        return self.opendir(path)

    def makedirs(self, path, recreate=False):
        self.check()
        parts = self._parts(path)
        cur = ""
        for x in parts:
            kk = (cur + "/" + x) if cur else x
            key = kk.lower() if self.ci else kk
            if key not in self.nodes:
                self.nodes[key] = ("d", x)
                self.log.append(("mkdir", key))
            elif not self._isdir(key):
                raise E.DirectoryExpected(path)
            cur = kk
        return self.opendir(path)

    def getinfo(self, path, namespaces=None):
        k = self._k(path)
        n = self.nodes.get(k)
        if n is None:
            raise E.ResourceNotFound(path)
        raw = {"basic": {"name": n[1], "is_dir": n[0] == "d"}}
        raw["details"] = {"modified": n[3] if n[0] == "f" else 0, "size": len(n[2]) if n[0] == "f" else 0, "type": 1 if n[0] == "d" else 2}
        return Info(raw)

    def remove(self, path):
        self.check()
        k = self._k(path)
        if self._isdir(k):
            raise E.FileExpected(path)
        if k not in self.nodes:
            raise E.ResourceNotFound(path)
        del self.nodes[k]
        self.log.append(("remove", k))

    def removedir(self, path):
        self.check()
        k = self._k(path)
        if not self._isdir(k):
            raise E.ResourceNotFound(path) if k not in self.nodes else E.DirectoryExpected(path)
        if any(key.startswith(k + "/") for key in self.nodes):
            raise E.DirectoryNotEmpty(path)
        if k:
            del self.nodes[k]
            self.log.append(("rmdir", k))

    def removetree(self, path):
        self.check()
        k = self._k(path)
        for key in [key for key in self.nodes if key and (key == k or key.startswith(k + "/") or k == "")]:
            del self.nodes[key]
        self.log.append(("rmtree", k))

    def movedir(self, src, dst, create=False):
        self.check()
        s, d = self._k(src), self._k(dst)
        if not self._isdir(s):
            raise E.ResourceNotFound(src)
        if not create and not self._isdir(d):
            raise E.ResourceNotFound(dst)
        if d not in self.nodes:
            self.makedirs(dst)
        moved = {}
        for key in [key for key in self.nodes if key.startswith(s + "/")]:
            moved[d + key[len(s) :]] = self.nodes.pop(key)
        del self.nodes[s]
        self.nodes.update(moved)
        self.log.append(("movedir", s, d))

    # ---- harness-side views (never used by the library)
    def files(self):
        """key -> (stored name, bytes) for all files."""
        return {k: (n[1], n[2]) for k, n in self.nodes.items() if n[0] == "f"}

    def dir_names(self, path=""):
        """Stored names of the direct children of a directory (sorted, harness view)."""
        k = self._k(path)
        pre = k + "/" if k else ""
        return sorted(self.nodes[key][1] for key in self.nodes if key and key.startswith(pre) and "/" not in key[len(pre) :])

    def snapshot(self):
        return {k: (n[0], n[1], n[2] if n[0] == "f" else None) for k, n in self.nodes.items()}

    def restore(self, snap):
        self.nodes = {k: (("d", v[1]) if v[0] == "d" else ("f", v[1], v[2], 0.0)) for k, v in snap.items()}

    def __repr__(self):
        return "SimFS(ci=%s, %d nodes)" % (self.ci, len(self.nodes))
