"""Runner: seeded batches of simulated runs on a fork pool, watchdogs, budgets,
known-finding matching, minimisation, replay files, evidence, exit codes.

Exit codes (DESIGN 2.6): 0 held / 1 VIOLATION / 2 harness error, watchdog,
determinism failure or coverage collapse.
"""
import argparse
import collections
import faulthandler
import json
import multiprocessing
import os
import queue
import signal
import subprocess
import sys
import time
import traceback

from . import VERIF, assert_tree, prng

EVIDENCE_DIR = os.path.join(VERIF, "evidence")
REPLAY_DIR = os.path.join(VERIF, "replays")
KNOWN_FILE = os.path.join(VERIF, "known_findings.json")


class RunTimeout(BaseException):
    pass


import contextlib


@contextlib.contextmanager
def time_limit(seconds):
    """Raises RunTimeout inside the block after `seconds` of wall time (nests inside the per-run watchdog)."""
    old_handler = signal.getsignal(signal.SIGALRM)
    if old_handler in (signal.SIG_DFL, signal.SIG_IGN, None):
        signal.signal(signal.SIGALRM, _alarm)
    t0 = time.time()
    prev = signal.alarm(int(seconds))
    try:
        yield
    finally:
        signal.alarm(0)
        if prev:
            signal.alarm(max(1, int(prev - (time.time() - t0))))


def fork_call(fn, timeout_s):
    """fn() in a forked child with a hard deadline: ("ok", value) or ("killed", None). For steps that can
    wedge the process itself (a decoder at the address-space limit, a C call no signal interrupts): the
    parent worker stays clean whatever happens to the child. The value must be picklable."""
    import pickle
    import select

    r_fd, w_fd = os.pipe()
    pid = os.fork()
    if pid == 0:
        code = 0
        try:
            os.close(r_fd)
            signal.alarm(0)
            try:
                faulthandler.cancel_dump_traceback_later()
            except Exception:
                pass
            try:
                payload = pickle.dumps(("ok", fn()))
            except BaseException as e:  # noqa
                payload = pickle.dumps(("raised", "%s: %s" % (type(e).__name__, str(e)[:200])))
            with os.fdopen(w_fd, "wb") as f:
                f.write(payload)
        except BaseException:  # noqa
            code = 1
        finally:
            os._exit(code)
    os.close(w_fd)
    chunks = []
    deadline = time.time() + timeout_s
    try:
        while True:
            left = deadline - time.time()
            if left <= 0:
                break
            ready, _, _ = select.select([r_fd], [], [], min(left, 1.0))
            if ready:
                b = os.read(r_fd, 1 << 20)
                if not b:
                    break
                chunks.append(b)
    finally:
        os.close(r_fd)
    done = False
    try:
        wpid, _st = os.waitpid(pid, os.WNOHANG)
        done = wpid == pid
    except ChildProcessError:
        done = True
    if not done:
        try:
            os.kill(pid, signal.SIGKILL)
        except ProcessLookupError:
            pass
        try:
            os.waitpid(pid, 0)
        except ChildProcessError:
            pass
    data = b"".join(chunks)
    if data:
        try:
            return pickle.loads(data)
        except Exception:
            pass
    return ("killed", None)


class Ctx:
    """What a property module sees."""

    def __init__(self, prop_id, tier, seed, workers, budget_s, opts=None):
        self.prop_id = prop_id
        self.tier = tier
        self.seed = seed
        self.workers = workers
        self.budget_s = budget_s
        self.opts = opts or {}
        self.world = {}
        self.t0 = time.time()

    def rng(self, *labels):
        return prng.sub(self.seed, self.prop_id, *labels)

    def pmap(self, fn, items, timeout_s=600):
        """Parallel map on a fork pool (used by prepare()); order-preserving."""
        return pmap(fn, list(items), self.workers, timeout_s)


# ---------------------------------------------------------------------------
# fork pool


def _alarm(signum, frame):
    raise RunTimeout()


# (2 GB: at 4 GB a worker that had run other things before could wedge for minutes in the allocator while
# unwinding from the MemoryError - seen with a bit-flipped cmap in C20, reproduced from its recorded schedule)
MEM_LIMIT = int(os.environ.get("VERIF_MEM_LIMIT_MB", "2048")) * 1024 * 1024


def limit_memory():
    """Damaged counts can make a decoder build multi-gigabyte lists inside one C call, which no alarm
    interrupts (cmap format 12 with a flipped range end: 34 GB and counting). An address-space limit
    turns that into a MemoryError inside the library."""
    try:
        import resource

        soft, hard = resource.getrlimit(resource.RLIMIT_AS)
        if soft == resource.RLIM_INFINITY or soft > MEM_LIMIT:
            resource.setrlimit(resource.RLIMIT_AS, (MEM_LIMIT, hard))
    except Exception:
        pass


def _worker_loop(fn, tasks, results, per_task_timeout):
    limit_memory()
    signal.signal(signal.SIGALRM, _alarm)
    signal.signal(signal.SIGINT, signal.SIG_IGN)
    faulthandler.enable()
    if hasattr(signal, "SIGUSR1"):
        faulthandler.register(signal.SIGUSR1, all_threads=True)  # kill -USR1 <worker> prints its stack
    done = []  # the runs this worker process executed so far, in order: its part of the schedule
    while True:
        try:
            item = tasks.get(timeout=5)
        except queue.Empty:
            continue
        if item is None:
            break
        key, arg = item
        results.put(("__start__", (key, os.getpid()), 0))
        t = time.time()
        try:
            signal.alarm(per_task_timeout)
            # second line of defence, in C and without the GIL: a run wedged where the alarm's exception cannot
            # reach it (inside one C call, in a finalizer, in the allocator at the address-space limit) ends
            # the worker; the parent counts such a death as a watchdog timeout
            faulthandler.dump_traceback_later(per_task_timeout + 20, exit=True)
            try:
                out = ("ok", fn(arg))
            finally:
                signal.alarm(0)
                faulthandler.cancel_dump_traceback_later()
        except RunTimeout:
            out = ("timeout", None)
        except BaseException:  # noqa: harness-level failure, reported as such
            out = ("error", traceback.format_exc())
        if out[0] == "ok" and isinstance(out[1], dict):
            out[1]["_sched"] = (os.getpid(), len(done))
        if out[0] == "ok" and isinstance(out[1], dict) and out[1].get("violation"):
            # recorded schedule: should the violation not reproduce from its own history alone, the runs
            # that preceded it in this process are what a replay needs (state leaking between runs)
            out[1]["worker_prefix"] = [list(k) for k in done if isinstance(k, tuple)]
        done.append(key)
        results.put((key, out, time.time() - t))
    results.put(("__done__", os.getpid(), 0))


def pool_run(fn, items, workers, per_task_timeout=120, deadline=None, on_result=None, recycle=400):
    """Run fn over items [(key, arg)] on forked workers.

    Returns dict key -> (status, value, wall). Tasks not started before
    `deadline` are returned with status "skipped". A worker that dies makes its
    in-flight task "died". Workers are recycled after `recycle` tasks.
    """
    ctx = multiprocessing.get_context("fork")
    items = list(items)
    out = {}
    if not items:
        return out
    workers = max(1, min(workers, len(items)))
    tasks = ctx.Queue()
    results = ctx.Queue()
    # feed tasks lazily so a deadline can stop submission
    pending = collections.deque(items)
    inflight = 0
    procs = []

    def spawn():
        p = ctx.Process(target=_worker_loop, args=(fn, tasks, results, per_task_timeout), daemon=True)
        p.start()
        procs.append(p)

    for _ in range(workers):
        spawn()
    submitted = 0
    # keep a small backlog per worker so that recycling/ordering stays simple
    backlog = workers * 2

    def feed():
        nonlocal inflight, submitted
        while pending and inflight < backlog:
            if deadline is not None and time.time() > deadline:
                while pending:
                    k, _ = pending.popleft()
                    out[k] = ("skipped", None, 0.0)
                return
            tasks.put(pending.popleft())
            inflight += 1
            submitted += 1

    feed()
    last_progress = time.time()
    last_progress_box = [time.time()]  # (also moved on by kill_overdue / reap: giving up on a run is progress)
    last_kill_check = [time.time()]
    hard_stall = per_task_timeout * 3 + 60
    running = {}  # pid -> key being executed
    started = {}  # pid -> when it started that key
    sched_log = {}  # pid -> keys it started, in order
    grace = per_task_timeout + 45

    def kill_overdue():
        """The in-worker alarm cannot end every run: an exception raised by the signal handler is swallowed
        when it lands in a finalizer, and a single C call is not interrupted at all. A worker that holds one
        run for longer than the watchdog plus a grace period is killed; the run counts as a watchdog timeout."""
        nonlocal inflight
        now = time.time()
        for p in list(procs):
            t0_ = started.get(p.pid)
            if t0_ is not None and p.pid in running and now - t0_ > grace:
                k = running.pop(p.pid)
                started.pop(p.pid, None)
                try:
                    p.kill()
                except Exception:
                    pass
                last_progress_box[0] = time.time()
                if k not in out:
                    # (the runs this worker had executed before are kept: the stall may depend on them)
                    out[k] = ("timeout", {"killed_by_parent": True, "worker_prefix": [list(x) if isinstance(x, tuple) else x for x in sched_log.get(p.pid, [])[:-1]]}, now - t0_)
                    inflight -= 1
                    if on_result is not None:
                        on_result(k, out[k])
                procs.remove(p)
                spawn()

    def reap():
        """A worker that died (segfault, OOM kill, os._exit in library code) loses exactly the run it had."""
        nonlocal inflight
        for p in list(procs):
            if not p.is_alive() and p.pid in running:
                k = running.pop(p.pid)
                t0_ = started.pop(p.pid, None)
                last_progress_box[0] = time.time()
                if k not in out:
                    if t0_ is not None and time.time() - t0_ >= per_task_timeout:
                        out[k] = ("timeout", {"killed_by_parent": True, "worker_prefix": [list(x) if isinstance(x, tuple) else x for x in sched_log.get(p.pid, [])[:-1]]}, time.time() - t0_)
                    else:
                        out[k] = ("died", "worker pid %d exit code %s" % (p.pid, p.exitcode), 0.0)
                    inflight -= 1
                    if on_result is not None:
                        on_result(k, out[k])
                procs.remove(p)
                spawn()

    while inflight > 0:
        try:
            key, res, wall = results.get(timeout=2)
        except queue.Empty:
            reap()
            kill_overdue()
            feed()
            alive = [p for p in procs if p.is_alive()]
            if len(alive) < workers and (pending or inflight):
                for _ in range(workers - len(alive)):
                    spawn()
            if time.time() - max(last_progress, last_progress_box[0]) > hard_stall:
                break
            continue
        if key == "__done__":
            continue
        if key == "__start__":
            running[res[1]] = res[0]
            started[res[1]] = time.time()
            sched_log.setdefault(res[1], []).append(res[0])
            continue
        for pid, k in list(running.items()):
            if k == key:
                del running[pid]
                started.pop(pid, None)
        if key in out:
            continue  # the result of a run that was given up on (its worker was killed as overdue) - ignore
        last_progress = time.time()
        if time.time() - last_kill_check[0] > 5:
            last_kill_check[0] = time.time()
            kill_overdue()
        inflight -= 1
        out[key] = (res[0], res[1], wall)
        if on_result is not None:
            on_result(key, out[key])
        feed()
    for _ in procs:
        tasks.put(None)
    for k, _ in items:
        if k not in out:
            out[k] = ("died", None, 0.0)
    t_end = time.time() + 5
    for p in procs:
        p.join(timeout=max(0.1, t_end - time.time()))
        if p.is_alive():
            p.kill()
    return out


def pmap(fn, items, workers, timeout_s=600):
    res = pool_run(fn, list(enumerate(items)), workers, per_task_timeout=timeout_s)
    outs = []
    for i in range(len(items)):
        st, val, _ = res[i]
        if st != "ok":
            raise HarnessError("prepare task %d %s: %s" % (i, st, val))
        outs.append(val)
    return outs


def run_isolated(fn, arg, timeout_s=120):
    """Execute fn(arg) in a forked child (used by the minimiser)."""
    res = pool_run(fn, [(0, arg)], 1, per_task_timeout=timeout_s)
    return res[0]


class HarnessError(Exception):
    pass


# ---------------------------------------------------------------------------
# known findings


def load_known(prop_id):
    if not os.path.exists(KNOWN_FILE):
        return []
    with open(KNOWN_FILE) as f:
        data = json.load(f)
    return [e for e in data.get("findings", []) if e.get("property") == prop_id and e.get("status") == "known"]


# ---------------------------------------------------------------------------
# minimisation (ddmin over ops, then faults, then property-specific simplification)


def ddmin(seq, test):
    """Classic ddmin: smallest subsequence (order kept) for which test(sub) is True."""
    n = 2
    seq = list(seq)
    while len(seq) >= 2:
        chunk = max(1, len(seq) // n)
        subsets = [seq[i : i + chunk] for i in range(0, len(seq), chunk)]
        reduced = False
        for i in range(len(subsets)):
            comp = [x for j, s in enumerate(subsets) if j != i for x in s]
            if test(comp):
                seq = comp
                n = max(n - 1, 2)
                reduced = True
                break
        if not reduced:
            if n >= len(seq):
                break
            n = min(len(seq), n * 2)
    if len(seq) == 1 and test([]):
        return []
    return seq


def minimise(mod, ctx, history, vclass, budget_s=90):
    t_end = time.time() + budget_s
    tried = [0]

    def fails(h):
        if time.time() > t_end:
            return False
        tried[0] += 1
        st, val, _ = run_isolated(lambda hh: _execute(mod, ctx, hh), h, timeout_s=mod_timeout(mod))
        return st == "ok" and val.get("violation") and val["violation"]["class"] == vclass

    best = json.loads(json.dumps(history))
    for field in ("ops", "faults"):
        if isinstance(best.get(field), list) and len(best[field]) > 0:

            def test(sub, field=field):
                h = dict(best)
                h[field] = sub
                return fails(h)

            best[field] = ddmin(best[field], test)
    simp = getattr(mod, "simplify", None)
    if simp is not None:
        progress = True
        while progress and time.time() < t_end:
            progress = False
            for cand in simp(ctx, best):
                if fails(cand):
                    best = cand
                    progress = True
                    break
    return best, tried[0]


def mod_timeout(mod):
    return int(getattr(mod, "RUN_TIMEOUT_S", 120))


# ---------------------------------------------------------------------------
# executing one run


def _execute(mod, ctx, history):
    from . import world

    env = history.get("env") if isinstance(history, dict) else None
    with world.isolated(env=env):
        res = mod.execute(ctx, history)
    res.setdefault("violation", None)
    res.setdefault("probes", {})
    res.setdefault("faults", {})
    res.setdefault("states", [])
    res.setdefault("nontrivial", True)
    res.setdefault("sim_time", 0.0)
    res.setdefault("known", [])
    res["digest"] = prng.digest(res.get("events", []))
    return res


def _gen_and_execute(mod, ctx, key):
    batch, idx = key
    history = mod.generate(ctx, batch, idx)
    if history is None:
        return {"skipped": True}
    res = _execute(mod, ctx, history)
    res["history_digest"] = prng.digest(history)
    # histories are only shipped back when they are needed
    if res["violation"] or res.get("known") or idx < 2:
        res["history"] = history
    res.pop("events", None)
    return res


# ---------------------------------------------------------------------------
# evidence


def validate_evidence(ev):
    req = ["property_id", "tier", "seed", "level", "coverage", "wall_s"]
    for k in req:
        assert k in ev, "evidence missing " + k
    assert ev["tier"] in ("quick", "thorough")
    assert isinstance(ev["seed"], int)
    cov = ev["coverage"]
    if ev["level"] in ("exploration", "fault_enumeration"):
        assert isinstance(cov["evaluations"], int) and cov["evaluations"] >= 1
        assert isinstance(cov["distinct_nontrivial"], int) and cov["distinct_nontrivial"] >= 2, "distinct_nontrivial < 2"
        assert isinstance(cov["rule"], str)
        assert isinstance(cov["samples"], list) and len(cov["samples"]) >= 1


def write_evidence(prop_id, ev):
    os.makedirs(EVIDENCE_DIR, exist_ok=True)
    path = os.path.join(EVIDENCE_DIR, prop_id + ".json")
    tmp = path + ".tmp"
    with open(tmp, "w") as f:
        json.dump(ev, f, indent=1, sort_keys=True, default=str)
        f.write("\n")
    os.replace(tmp, path)
    return path


# ---------------------------------------------------------------------------
# main entry


def tier_cfg(mod, tier):
    return dict(mod.TIERS[tier])


def main(mod, argv=None):
    ap = argparse.ArgumentParser(prog="check " + mod.ID)
    ap.add_argument("--tier", default=os.environ.get("VERIF_TIER", "quick"), choices=["quick", "thorough"])
    ap.add_argument("--seed", type=int, default=int(os.environ.get("VERIF_SEED", "0") or 0))
    ap.add_argument("--workers", type=int, default=int(os.environ.get("VERIF_WORKERS", "0") or 0))
    ap.add_argument("--budget", type=float, default=None, help="wall-clock budget in seconds for the run phase")
    ap.add_argument("--replay", default=None)
    ap.add_argument("--run-many", default=None, help="batch:idx,batch:idx,... print one JSON digest line each")
    ap.add_argument("--only", default=None, help="comma list of batch names")
    ap.add_argument("--scale", type=float, default=1.0, help="multiply batch sizes")
    ap.add_argument("--no-selftest", action="store_true")
    ap.add_argument("--no-evidence", action="store_true")
    ap.add_argument("--dump-digests", default=None, help="write {batch:idx: digest} JSON (debugging determinism)")
    args = ap.parse_args(argv)
    assert_tree()
    cfg = tier_cfg(mod, args.tier)
    workers = args.workers or min(16, os.cpu_count() or 1)
    budget = args.budget if args.budget is not None else cfg.get("budget_s", 150)
    ctx = Ctx(mod.ID, args.tier, args.seed, workers, budget, opts={"scale": args.scale, "only": args.only, "cfg": cfg})
    try:
        if args.replay:
            limit_memory()
            return replay(mod, ctx, args.replay)
        if args.run_many is not None:
            limit_memory()
            return run_many(mod, ctx, args.run_many)
        return check(mod, ctx, args)
    except HarnessError as e:
        print("HARNESS-ERROR property=%s %s" % (mod.ID, e))
        return 2


def replay(mod, ctx, path):
    with open(path) as f:
        rp = json.load(f)
    ctx.seed = rp.get("seed", ctx.seed)
    if hasattr(mod, "prepare_for"):
        mod.prepare_for(ctx, [rp["history"]])
    if rp.get("tier") and rp["tier"] != ctx.tier:
        ctx.tier = rp["tier"]
        ctx.opts["cfg"] = tier_cfg(mod, rp["tier"])
    for b, i in rp.get("prefix_runs") or []:
        # the recorded schedule of the worker process: these runs first, in this order, in this process
        try:
            hp = mod.generate(ctx, b, i)
            if hp is not None:
                _execute(mod, ctx, hp)
        except Exception:
            pass
    res = _execute(mod, ctx, rp["history"])
    v = res["violation"]
    if v:
        print("VIOLATION property=%s replay=%s class=%s" % (mod.ID, path, v["class"]))
        print("detail: " + str(v.get("detail", ""))[:2000])
        return 1
    print("replay: no violation (digest %s)" % res["digest"])
    return 0


def run_many(mod, ctx, spec):
    keys = []
    for part in spec.split(","):
        if not part:
            continue  # an empty list of runs is an empty job, never "run the whole check"
        b, i = part.rsplit(":", 1)
        keys.append((b, int(i)))
    if hasattr(mod, "prepare_for"):
        mod.prepare_for(ctx, None, keys=keys)
    for b, i in keys:
        h = mod.generate(ctx, b, i)
        if h is None:
            print(json.dumps({"key": [b, i], "skipped": True}))
            continue
        res = _execute(mod, ctx, h)
        if os.environ.get("VERIF_DEBUG_EVENTS"):
            print("history: " + json.dumps(h, default=str)[:4000], file=sys.stderr)
            print("events: " + json.dumps(res.get("events"), default=str)[:8000], file=sys.stderr)
        print(
            json.dumps(
                {
                    "key": [b, i],
                    "digest": res["digest"],
                    "history": prng.digest(h),
                    "violation": res["violation"]["class"] if res["violation"] else None,
                }
            )
        )
    sys.stdout.flush()
    return 0


def check(mod, ctx, args):
    t0 = time.time()
    cfg = ctx.opts["cfg"]
    prep_info = mod.prepare(ctx) or {}
    t_prep = time.time() - t0
    batches = mod.batches(ctx)
    if args.only:
        keep = set(args.only.split(","))
        batches = [b for b in batches if b["name"] in keep]
    # interleave batches proportionally so a budget cut trims all of them alike
    tasks = []
    for b in batches:
        n = max(1, int(round(b["n"] * args.scale))) if b["n"] else 0
        b["n_eff"] = n
        for i in range(n):
            # ("front": a batch of few, long runs is scheduled within the first part of the run, so that
            # its last members do not leave the pool idle at the end)
            tasks.append(((i + 0.5) / n * b.get("front", 1.0), b["name"], i))
    tasks.sort()
    items = [((b, i), (b, i)) for _, b, i in tasks]
    deadline = t0 + t_prep + ctx.budget_s if ctx.budget_s else None
    fn = lambda key: _gen_and_execute(mod, ctx, key)  # noqa: E731
    res = pool_run(fn, items, ctx.workers, per_task_timeout=mod_timeout(mod), deadline=deadline)
    t_run = time.time() - t0 - t_prep

    # ---- aggregate in (batch order, run index) order: independent of worker count
    order = {b["name"]: k for k, b in enumerate(batches)}
    keys = sorted(res.keys(), key=lambda k: (order[k[0]], k[1]))
    agg = {
        "evaluations": 0,
        "skipped_budget": 0,
        "skipped_gen": 0,
        "timeouts": 0,
        "errors": [],
        "died": 0,
    }
    probes = collections.Counter()
    faults = collections.Counter()
    states = set()
    nontrivial = set()
    per_batch = collections.OrderedDict((b["name"], collections.Counter()) for b in batches)
    sim_time = 0.0
    violations = []
    known_hits = collections.OrderedDict()
    samples = []
    digests = {}
    sched = {}  # worker pid -> [(position, key)]: the recorded schedule
    for k in keys:
        st, val, wall = res[k]
        pb = per_batch[k[0]]
        if st == "skipped":
            agg["skipped_budget"] += 1
            pb["skipped_budget"] += 1
            continue
        if st == "timeout":
            agg["timeouts"] += 1
            pb["timeouts"] += 1
            continue
        if st == "died":
            agg["died"] += 1
            continue
        if st == "error":
            agg["errors"].append((k, val))
            continue
        if val.get("skipped"):
            agg["skipped_gen"] += 1
            pb["skipped_gen"] += 1
            continue
        agg["evaluations"] += 1
        pb["runs"] += 1
        pb["wall_ms"] += int(wall * 1000)
        digests[k] = val["digest"]
        if val.get("_sched"):
            sched.setdefault(val["_sched"][0], []).append((val["_sched"][1], k))
        probes.update(val["probes"])
        faults.update(val["faults"])
        for s in val["states"]:
            states.add(s)
        if val["nontrivial"]:
            nontrivial.add(val["history_digest"])
            pb["nontrivial"] += 1
        sim_time += val["sim_time"]
        for kf in val["known"]:
            known_hits.setdefault(kf["id"], kf)
            pb["known"] += 1
        if val["violation"]:
            violations.append((k, val))
            pb["violations"] += 1
        if "history" in val and len(samples) < 6 and k[1] < 2:
            samples.append({"batch": k[0], "run": k[1], "history": _trim(val["history"]), "digest": val["digest"][:16]})

    if os.environ.get("VERIF_DEBUG_SLOW"):
        slow = sorted(((res[k][2], k) for k in keys if res[k][0] == "ok"), reverse=True)[:12]
        print("slowest runs:", [(round(w, 1), k) for w, k in slow])
    if args.dump_digests:
        with open(args.dump_digests, "w") as f:
            json.dump({"%s:%d" % k: v for k, v in sorted(digests.items())}, f, indent=0)
    exit_code = 0
    lines = []
    for kid, kf in known_hits.items():
        lines.append("KNOWN-FINDING: property=%s %s" % (mod.ID, kf["text"]))
    if not args.only:
        # every listed finding is announced, also one that this run's sample happened not to reach
        for e in load_known(mod.ID):
            if e["id"] not in known_hits:
                lines.append("KNOWN-FINDING: property=%s %s [listed in known_findings.json; not reached by the histories of this run]" % (mod.ID, e["text"]))

    if agg["skipped_budget"]:
        print("NOTE: the wall-clock budget (%ds) ended the batch early: %d of %d planned runs were not started (slow or shared machine); what ran is reported below and in the evidence file" % (ctx.budget_s, agg["skipped_budget"], len(keys)))
    # ---- harness-level failures
    if agg["errors"]:
        for k, tb in agg["errors"][:3]:
            print("HARNESS-ERROR run=%s:%d\n%s" % (k[0], k[1], tb))
        exit_code = 2
    if agg["died"]:
        print("HARNESS-ERROR %d runs lost to dead workers: %s" % (agg["died"], [(k, res[k][1]) for k in keys if res[k][0] == "died"][:5]))
        exit_code = 2
    if agg["timeouts"]:
        print("HARNESS: %d runs hit the per-run watchdog (inconclusive)" % agg["timeouts"])
        for k in keys:
            st_, val_, _w = res[k]
            if st_ == "timeout" and isinstance(val_, dict) and val_.get("killed_by_parent"):
                os.makedirs(os.path.join(REPLAY_DIR, mod.ID), exist_ok=True)
                pth = os.path.join(REPLAY_DIR, mod.ID, "%d-stalled-%s-%d.json" % (ctx.seed, k[0], k[1]))
                with open(pth, "w") as f:
                    json.dump({"property": mod.ID, "seed": ctx.seed, "tier": ctx.tier, "class": "stalled-run", "note": "the worker executing this run did not return within the watchdog plus grace and was killed by the parent; prefix_runs are the runs that worker had executed before", "prefix_runs": val_.get("worker_prefix", []), "history": mod.generate(ctx, k[0], k[1])}, f, indent=1, default=str)
                print("HARNESS: run %s:%d stalled and its worker was killed; schedule kept in %s" % (k[0], k[1], pth))
        if agg["timeouts"] > max(2, agg["evaluations"] // 50):
            exit_code = 2

    # ---- determinism self-test: a sample of runs again, in fresh interpreters,
    # under another hash seed (DESIGN 2.2)
    det = {"checked": 0, "mismatch": 0}
    n_det = 0 if args.no_selftest else int(os.environ.get("VERIF_DET_SAMPLE") or cfg.get("determinism_sample", 0))
    if n_det and digests:
        det = determinism_sample(mod, ctx, digests, n_det)
        if det["mismatch"]:
            explained = 0
            hook = getattr(mod, "from_selftest_mismatch", None)
            if hook is not None:
                # a property about determinism itself: the mismatch is turned into an ordinary history of that
                # property (same run under two hash seeds / alone and after the runs that preceded it in its
                # worker process) and judged, minimised and replayed like any other
                where = {k2: (pid, pos) for pid, lst in sched.items() for pos, k2 in lst}
                for ex in det["examples"]:
                    k2 = ex[0]
                    if not isinstance(k2, tuple) or k2 not in where:
                        continue
                    pid, pos = where[k2]
                    prefix = [list(kk) for p2, kk in sorted(sched[pid]) if p2 < pos]
                    for hist in hook(ctx, k2, prefix):
                        try:
                            r2 = _execute(mod, ctx, hist)
                        except Exception:
                            continue
                        if r2.get("violation"):
                            r2["history"] = hist
                            violations.append((("selftest", len(violations)), r2))
                            explained += 1
                            break
            print("%s determinism self-test: %d of %d runs changed digest in a fresh interpreter under another PYTHONHASHSEED: %s%s" % ("NOTE:" if explained and explained >= len(det["examples"]) else "HARNESS-ERROR", det["mismatch"], det["checked"], det["examples"], " (explained as violations of this property, below)" if explained else ""))
            if not (explained and explained >= len(det["examples"])):
                exit_code = max(exit_code, 2)

    # ---- violations: minimise, write replay, confirm in a fresh interpreter
    reported = []
    if violations:
        seen_classes = collections.OrderedDict()
        for k, val in violations:
            seen_classes.setdefault(val["violation"]["class"], []).append((k, val))
        os.makedirs(os.path.join(REPLAY_DIR, mod.ID), exist_ok=True)
        n_min = 0
        for vclass, lst in seen_classes.items():
            k, val = lst[0]
            hist = val["history"]
            tried = 0
            if n_min < cfg.get("max_minimise", 4):
                n_min += 1
                hist, tried = minimise(mod, ctx, hist, vclass, budget_s=cfg.get("minimise_s", 90))
            path = os.path.join(REPLAY_DIR, mod.ID, "%d-%s-%d.json" % (ctx.seed, k[0], k[1]))
            with open(path, "w") as f:
                json.dump(
                    {
                        "property": mod.ID,
                        "seed": ctx.seed,
                        "batch": k[0],
                        "run": k[1],
                        "class": vclass,
                        "detail": val["violation"].get("detail"),
                        "history": hist,
                        "original_history_len": len(val["history"].get("ops", [])) if isinstance(val["history"], dict) else None,
                        "minimiser_executions": tried,
                        "same_class_runs": len(lst),
                    },
                    f,
                    indent=1,
                    default=str,
                )
            # fresh-interpreter confirmation
            cp = subprocess.run(
                [sys.executable, os.path.join(VERIF, "check"), mod.ID, "--replay", path],
                capture_output=True,
                text=True,
                timeout=mod_timeout(mod) * 2 + 120,
            )
            ok = cp.returncode == 1 and ("class=%s" % vclass) in cp.stdout
            note = ""
            if not ok and val.get("worker_prefix"):
                # not reproducible from its own history: replay the recorded schedule of the worker process
                # (the runs it had executed before), shortest suffix first
                pre = val["worker_prefix"]
                for kk in [n for n in (1, 3, 8, 20, 60, 150) if n < len(pre)] + [len(pre)]:
                    with open(path, "w") as f:
                        json.dump(
                            {
                                "property": mod.ID,
                                "seed": ctx.seed,
                                "tier": ctx.tier,
                                "batch": k[0],
                                "run": k[1],
                                "class": vclass,
                                "detail": val["violation"].get("detail"),
                                "prefix_runs": pre[-kk:],
                                "history": val["history"],
                                "note": "reproduces only after the runs listed under prefix_runs were executed in the same process (recorded schedule of the pool worker): state leaks from one run to the next",
                            },
                            f,
                            indent=1,
                            default=str,
                        )
                    cp = subprocess.run([sys.executable, os.path.join(VERIF, "check"), mod.ID, "--replay", path], capture_output=True, text=True, timeout=mod_timeout(mod) * (kk + 2) + 120)
                    ok = cp.returncode == 1 and ("class=%s" % vclass) in cp.stdout
                    if ok:
                        note = " [reproduces only after the %d preceding runs of its worker process, listed in the replay file: state leaks between runs in one process]" % kk
                        break
            if not ok:
                print("HARNESS-ERROR replay of %s did not reproduce class %s (rc=%s)\n%s" % (path, vclass, cp.returncode, cp.stdout[-2000:] + cp.stderr[-2000:]))
                exit_code = 2
                continue
            reported.append((vclass, path, (note.strip() + " " if note else "") + str(val["violation"].get("detail", "")), len(lst)))
        for vclass, path, detail, n in reported:
            lines.append("VIOLATION property=%s replay=%s" % (mod.ID, path))
            lines.append("  class=%s runs=%d detail=%s" % (vclass, n, str(detail)[:600]))
        if reported:
            # a violation that reproduces from its replay file in a fresh interpreter stands on its own,
            # whatever else went wrong in this run (harness errors are still printed above)
            exit_code = 1

    # ---- vacuity guard
    vac = getattr(mod, "vacuity", None)
    if vac is not None:
        msg = vac(ctx, agg, per_batch, probes, faults)
        if msg:
            print("HARNESS-ERROR coverage collapsed: " + msg)
            exit_code = max(exit_code, 2) if exit_code != 1 else 1

    wall = time.time() - t0
    ev = {
        "property_id": mod.ID,
        "tier": ctx.tier,
        "seed": ctx.seed,
        "level": mod.LEVEL,
        "wall_s": round(wall, 2),
        "violations": len(reported),
        "coverage": {
            "evaluations": agg["evaluations"],
            "distinct_nontrivial": len(nontrivial),
            "rule": mod.RULE,
            "samples": samples or [{"note": "no sample captured"}],
            "exhaustive": bool(getattr(mod, "EXHAUSTIVE", False)),
            "per_batch": {k: dict(v) for k, v in per_batch.items()},
            "faults_fired": dict(sorted(faults.items())),
            "probes": dict(sorted(probes.items())),
            "probes_stuck_at_zero": sorted(p for p in getattr(mod, "EXPECTED_PROBES", []) if not probes.get(p)),
            "distinct_states": len(states),
            "states_measure": getattr(mod, "STATES_MEASURE", ""),
            "runs_per_hour": int(agg["evaluations"] / max(t_run, 1e-6) * 3600),
            "seeds_per_hour": int(agg["evaluations"] / max(t_run, 1e-6) * 3600),
            "simulated_time_s": round(sim_time, 1),
            "skipped_by_budget": agg["skipped_budget"],
            "skipped_by_generator": agg["skipped_gen"],
            "watchdog_timeouts": agg["timeouts"],
            "prepare_s": round(t_prep, 2),
            "run_s": round(t_run, 2),
            "workers": ctx.workers,
            "determinism_selftest": det,
            "known_findings_hit": [kf["id"] for kf in known_hits.values()],
            "components_real": getattr(mod, "COMPONENTS_REAL", []),
            "components_stub": getattr(mod, "COMPONENTS_STUB", []),
            "prepare": prep_info,
        },
        "assumptions": getattr(mod, "ASSUMPTIONS", []),
    }
    ev["coverage"]["sensitivity_last_selftest"] = _last_selftest(mod.ID)
    extra = getattr(mod, "evidence_extra", None)
    if extra is not None:
        ev["coverage"].update(extra(ctx) or {})
    try:
        validate_evidence(ev)
    except AssertionError as e:
        print("HARNESS-ERROR evidence invalid: %s" % e)
        exit_code = max(exit_code, 2) if exit_code != 1 else 1
    if not args.no_evidence:
        write_evidence(mod.ID, ev)
    for ln in lines:
        print(ln)
    print(
        "%s tier=%s seed=%d runs=%d distinct_nontrivial=%d states=%d faults=%d violations=%d known=%d wall=%.1fs exit=%d"
        % (mod.ID, ctx.tier, ctx.seed, agg["evaluations"], len(nontrivial), len(states), sum(faults.values()), len(reported), len(known_hits), wall, exit_code)
    )
    return exit_code


def _last_selftest(prop_id):
    """Results of the last sensitivity self-test and seeded-change recheck (NOT measured by this run;
    read from the committed result files and labelled as such)."""
    out = {"note": "not measured by this run: read from selftest/sensitivity_results.json and seeded/*/meta.json"}
    try:
        with open(os.path.join(VERIF, "selftest", "sensitivity_results.json")) as f:
            rs = [r for r in json.load(f) if r.get("property") == prop_id]
        out["own_mutants_tried"] = len(rs)
        out["own_mutants_killed"] = sum(r["status"] == "KILLED" for r in rs)
        out["own_mutants_survived"] = [r["name"] for r in rs if r["status"] != "KILLED"]
    except Exception:
        pass
    try:
        sd = os.path.join(VERIF, "seeded")
        ms = []
        for d in sorted(os.listdir(sd)):
            mp = os.path.join(sd, d, "meta.json")
            if os.path.exists(mp):
                with open(mp) as f:
                    m = json.load(f)
                if m.get("property") == prop_id:
                    ms.append(m)
        out["independent_changes_kept"] = len(ms)
        out["independent_changes_caught_now"] = sum(1 for m in ms if prop_id in m.get("caught_by", []))
        out["independent_changes_caught_on_first_run"] = sum(1 for m in ms if m.get("caught_on_first_run") is True)
    except Exception:
        pass
    return out


def determinism_sample(mod, ctx, digests, n):
    keys = sorted(digests.keys())
    r = ctx.rng("determinism-sample")
    pick = keys if len(keys) <= n else r.sample(keys, n)
    pick.sort()
    chunks = [pick[i::8] for i in range(8)]
    chunks = [c for c in chunks if c]
    procs = []
    for ci, c in enumerate(chunks):
        env = dict(os.environ)
        env["PYTHONHASHSEED"] = str(1 + (ctx.seed * 31 + ci * 7919) % 4294967290)
        spec = ",".join("%s:%d" % k for k in c)
        cmd = [sys.executable, os.path.join(VERIF, "check"), mod.ID, "--run-many", spec, "--seed", str(ctx.seed), "--tier", ctx.tier, "--scale", str(ctx.opts.get("scale", 1.0))]
        procs.append((c, subprocess.Popen(cmd, stdout=subprocess.PIPE, stderr=subprocess.PIPE, text=True, env=env)))
    checked = 0
    mism = []
    for c, p in procs:
        try:
            so, se = p.communicate(timeout=mod_timeout(mod) * len(c) + 300)
        except subprocess.TimeoutExpired:
            p.kill()
            mism.append(("timeout", c[0]))
            continue
        got = {}
        for ln in so.splitlines():
            if ln.startswith("{"):
                try:
                    d = json.loads(ln)
                    got[tuple(d["key"])] = d
                except Exception:
                    pass
        for k in c:
            checked += 1
            d = got.get(k)
            if d is None or d.get("digest") != digests[k]:
                mism.append((k, (d or {}).get("digest"), digests[k], se[-300:] if d is None else ""))
    return {"checked": checked, "mismatch": len(mism), "examples": mism[:3], "fresh_interpreters": len(procs), "hash_seeds": "PYTHONHASHSEED varied per interpreter"}


def _trim(h, limit=1500):
    s = json.dumps(h, default=str)
    if len(s) <= limit:
        return h
    return {"truncated": s[:limit] + "..."}
