"""World reset (DESIGN 2.10): snapshot and restore the process-global state a
simulated run may change, so results never depend on which runs shared a worker."""
import contextlib
import logging
import os
import sys
import warnings


def _seams():
    from fontTools.misc import timeTools, xmlReader
    from fontTools.ttLib import sfnt, woff2, ttFont
    from fontTools.ttLib.tables import otBase

    return [
        (timeTools, "time"),
        (xmlReader, "BUFSIZE"),
        (sfnt, "USE_ZOPFLI"),
        (sfnt, "ZLIB_COMPRESSION_LEVEL"),
        (woff2, "haveBrotli"),
        (otBase, "have_uharfbuzz"),
        (otBase, "hb") if hasattr(otBase, "hb") else None,
        (otBase, "USE_HARFBUZZ_REPACKER") if hasattr(otBase, "USE_HARFBUZZ_REPACKER") else None,
    ]


_MISSING = object()


@contextlib.contextmanager
def isolated(env=None, cwd=None):
    """Run a simulated execution in a reset world.

    env: dict of environment overrides (value None = unset).
    """
    from fontTools.ttLib import ttFont

    seams = [s for s in _seams() if s]
    saved = [(m, a, getattr(m, a, _MISSING)) for m, a in seams]
    saved_env = dict(os.environ)
    saved_cwd = os.getcwd()
    saved_argv = list(sys.argv)
    saved_std = (sys.stdin, sys.stdout, sys.stderr)
    saved_reg = dict(getattr(ttFont, "_customTableRegistry", {}))
    saved_filters = list(warnings.filters)
    saved_disable = logging.root.manager.disable
    try:
        # a canonical environment first, then the run's own settings
        for k in ("SOURCE_DATE_EPOCH", "FONTTOOLS_GPOS_COMPACT_MODE", "FONTTOOLS_LOOKUP_DEBUGGING"):
            os.environ.pop(k, None)
        if env:
            for k, v in env.items():
                if v is None:
                    os.environ.pop(k, None)
                else:
                    os.environ[k] = str(v)
        if cwd:
            os.chdir(cwd)
        _tzset()
        # no run ever reads the real clock: a frozen simulated clock is the default,
        # runs that study time install their own SimClock on top
        from fontTools.misc import timeTools
        from .clock import SimClock

        if not isinstance(timeTools.time, SimClock):
            timeTools.time = SimClock(start=1_700_000_000.0, regime="frozen")
        yield
    finally:
        for m, a, v in saved:
            if v is _MISSING:
                if hasattr(m, a):
                    delattr(m, a)
            else:
                setattr(m, a, v)
        os.environ.clear()
        os.environ.update(saved_env)
        _tzset()
        try:
            os.chdir(saved_cwd)
        except OSError:
            pass
        sys.argv[:] = saved_argv
        sys.stdin, sys.stdout, sys.stderr = saved_std
        reg = getattr(ttFont, "_customTableRegistry", None)
        if reg is not None:
            reg.clear()
            reg.update(saved_reg)
        warnings.filters[:] = saved_filters
        logging.disable(saved_disable)
        _clear_caches()


def _tzset():
    """Make a changed TZ environment variable effective for this process (and undo it afterwards)."""
    import time

    if hasattr(time, "tzset"):
        time.tzset()


def _clear_caches():
    try:
        from fontTools.varLib.instancer import solver

        solver.rebaseTent.cache_clear()
    except Exception:
        pass


@contextlib.contextmanager
def patched(obj, attr, value):
    old = getattr(obj, attr, _MISSING)
    setattr(obj, attr, value)
    try:
        yield
    finally:
        if old is _MISSING:
            delattr(obj, attr)
        else:
            setattr(obj, attr, old)


_PLAIN_ETREE = None


def plain_etree_module():
    """A second instance of fontTools.misc.etree built on xml.etree (lxml hidden)."""
    global _PLAIN_ETREE
    if _PLAIN_ETREE is None:
        import importlib.util
        import fontTools.misc.etree as real

        saved = {k: sys.modules.get(k, _MISSING) for k in ("lxml", "lxml.etree")}
        sys.modules["lxml"] = None
        sys.modules["lxml.etree"] = None
        try:
            spec = importlib.util.spec_from_file_location("fontTools.misc._verif_plain_etree", real.__file__)
            mod = importlib.util.module_from_spec(spec)
            spec.loader.exec_module(mod)
        finally:
            for k, v in saved.items():
                if v is _MISSING:
                    sys.modules.pop(k, None)
                else:
                    sys.modules[k] = v
        assert not mod._have_lxml
        _PLAIN_ETREE = mod
    return _PLAIN_ETREE


@contextlib.contextmanager
def etree_backend(use_lxml):
    """Run with lxml (as installed) or with the xml.etree fallback of fontTools.misc.etree."""
    if use_lxml:
        yield
        return
    import fontTools.designspaceLib as dsl
    import fontTools.misc.plistlib as pl
    import fontTools.ufoLib.glifLib as gl

    mod = plain_etree_module()
    with patched(dsl, "ET", mod), patched(pl, "etree", mod), patched(gl, "etree", mod):
        yield
