"""Corpus discovery under /repo/Tests (sorted, so indices are stable) and
derived inputs: gen-1/gen-2 recompiles of binary fonts and TTX-derived fonts."""
import glob
import io
import logging
import os

from . import REPO

TESTS = os.path.join(REPO, "Tests")

_cache = {}


def _glob(*pats):
    out = []
    for p in pats:
        out.extend(glob.glob(os.path.join(TESTS, "**", p), recursive=True))
    return sorted(set(out))


def binaries():
    return [os.path.relpath(p, TESTS) for p in _glob("*.ttf", "*.otf")]


def containers():
    return [os.path.relpath(p, TESTS) for p in _glob("*.ttc", "*.otc", "*.woff", "*.woff2", "*.dfont")]


def ttx_files():
    return [os.path.relpath(p, TESTS) for p in _glob("*.ttx")]


def fea_files():
    return [os.path.relpath(p, TESTS) for p in _glob("*.fea")]


def designspaces():
    return [os.path.relpath(p, TESTS) for p in _glob("*.designspace")]


def ufos():
    return [os.path.relpath(p, TESTS) for p in _glob("*.ufo")]


def path(rel):
    return os.path.join(TESTS, rel)


def raw(rel):
    k = ("raw", rel)
    if k not in _cache:
        with open(path(rel), "rb") as f:
            _cache[k] = f.read()
    return _cache[k]


def _recompile(data):
    from fontTools.ttLib import TTFont

    f = TTFont(io.BytesIO(data), recalcTimestamp=False, lazy=False)
    f.ensureDecompiled()
    out = io.BytesIO()
    f.save(out)
    return out.getvalue()


def compute_gen2(key):
    """key: 'bin:<rel>' or 'ttx:<rel>'. Returns gen-2 bytes when the font is a
    recompile fixed point, else a string reason. Never raises."""
    lvl = logging.root.manager.disable
    logging.disable(logging.CRITICAL)
    try:
        kind, rel = key.split(":", 1)
        try:
            if kind == "bin":
                src = raw(rel)
            else:
                from fontTools.ttLib import TTFont

                f = TTFont(recalcTimestamp=False)
                f.importXML(path(rel))
                b = io.BytesIO()
                f.save(b)
                src = b.getvalue()
            g1 = _recompile(src)
            g2 = _recompile(g1)
        except BaseException as e:  # noqa
            if isinstance(e, (KeyboardInterrupt, SystemExit)):
                raise
            return "exc:%s" % type(e).__name__
        if g1 != g2:
            return "not-fixed-point"
        if "maxp" not in _tags(g2) or "head" not in _tags(g2):
            return "no-head-or-maxp"
        return g2
    finally:
        logging.disable(lvl)


def _tags(data):
    import struct

    n = struct.unpack_from(">H", data, 4)[0]
    return {data[12 + 16 * i : 16 + 16 * i].decode("latin1") for i in range(n)}


def gen2(key):
    k = ("gen2", key)
    if k not in _cache:
        _cache[k] = compute_gen2(key)
    v = _cache[k]
    return v if isinstance(v, bytes) else None


def put_gen2(key, val):
    _cache[("gen2", key)] = val


def all_gen2_keys():
    return ["bin:" + r for r in binaries()] + ["ttx:" + r for r in ttx_files()]


def compute_gen2_cached(key):
    k = ("gen2", key)
    if k not in _cache:
        _cache[k] = compute_gen2(key)
    return _cache[k]


_BY_TAG = {}


def keys_by_tag():
    """{table tag: [gen-2 keys of eligible fonts that contain it]} — lets a generator pick a table kind
    first and a font second, so that rare table kinds are not drowned by the common ones."""
    if not _BY_TAG and os.environ.get("VERIF_TAGINDEX") and os.path.exists(os.environ["VERIF_TAGINDEX"]):
        # written by the parent check process (same tree, same code) so that the fresh interpreters it
        # starts do not recompile the whole corpus just to make the same choice
        import json

        with open(os.environ["VERIF_TAGINDEX"]) as f:
            _BY_TAG.update(json.load(f))
    if not _BY_TAG:
        for k in all_gen2_keys():
            g = gen2(k)
            if g is None:
                continue
            try:
                for t in sorted(_tags(g)):
                    _BY_TAG.setdefault(t, []).append(k)
            except Exception:
                pass
    return _BY_TAG


def publish_tag_index():
    """Writes keys_by_tag() to a scratch file and exports its path to child interpreters."""
    import atexit
    import json
    import tempfile

    bt = keys_by_tag()
    fd, path = tempfile.mkstemp(prefix="verif-tagindex-", suffix=".json")
    with os.fdopen(fd, "w") as f:
        json.dump(bt, f)
    os.environ["VERIF_TAGINDEX"] = path
    pid = os.getpid()

    def _rm():
        if os.getpid() == pid:
            try:
                os.remove(path)
            except OSError:
                pass

    atexit.register(_rm)
    return path


# ---------------------------------------------------------------------------
# table blobs embedded in the repository's own table unit tests

_BLOBS = {}
_BLOB_BASE = {}


def _harvest_blobs():
    """{key: (tag, bytes)} for module-level `NAME_DATA = deHexStr("..")` / bytes constants in
    Tests/ttLib/tables/*_test.py, found by parsing the files (nothing is imported or executed). These are
    the only samples of about twenty table kinds (kern, mort, morx, trak, cidg, gcid, TSI*, ...) that no
    corpus font contains."""
    import ast

    from fontTools.ttLib import identifierToTag

    out = {}
    d = os.path.join(TESTS, "ttLib", "tables")
    for fn in sorted(os.listdir(d)):
        if not fn.endswith("_test.py"):
            continue
        ident = fn[: -len("_test.py")]
        try:
            tag = identifierToTag(ident)
        except Exception:
            continue
        if len(tag) != 4 or ident in ("otBase", "otConverters", "otTables", "tables", "ttProgram", "TupleVariation"):
            continue
        try:
            with open(os.path.join(d, fn), encoding="utf-8") as f:
                tree = ast.parse(f.read())
        except (OSError, SyntaxError):
            continue
        for node in tree.body:
            if not (isinstance(node, ast.Assign) and len(node.targets) == 1 and isinstance(node.targets[0], ast.Name)):
                continue
            name = node.targets[0].id
            if not name.endswith("DATA"):
                continue
            v = node.value
            data = None
            try:
                if isinstance(v, ast.Call) and getattr(v.func, "id", None) == "deHexStr" and len(v.args) == 1:
                    s = ast.literal_eval(v.args[0])
                    data = bytes.fromhex("".join(s.split()))
                elif isinstance(v, ast.Constant) and isinstance(v.value, bytes):
                    data = v.value
            except (ValueError, SyntaxError):
                data = None
            if data:
                out["%s:%s" % (ident, name)] = (tag, data)
    return out


# tables the base font needs for itself, or that only make sense together with others (variations)
_BLOB_SKIP = {"head", "hhea", "maxp", "hmtx", "post", "glyf", "loca", "cmap", "name", "OS/2", "vhea", "vmtx", "fvar", "gvar", "cvar", "avar", "HVAR", "VVAR", "MVAR", "CFF ", "CFF2", "TSI0", "TSI1", "TSI2", "TSI3"}


def blob_keys():
    """Blobs that fit the base font: the table decodes eagerly and recompiles to the same bytes (samples cut
    from larger fonts, e.g. an opbd table that addresses glyphs the base font does not have, are left out)."""
    if not _BLOB_BASE.get("listed"):
        import io

        from fontTools.ttLib import TTFont

        _BLOB_BASE["listed"] = True
        _BLOBS.clear()
        lvl = logging.root.manager.disable
        logging.disable(logging.CRITICAL)
        try:
            for k, v in _harvest_blobs().items():
                if v[0] in _BLOB_SKIP:
                    continue
                _BLOBS[k] = v
                try:
                    f = TTFont(io.BytesIO(blob_font(k)), lazy=False, recalcTimestamp=False)
                    t = f[v[0]]
                    if hasattr(t, "ensureDecompiled"):
                        t.ensureDecompiled()
                    ok = t.compile(f) == v[1]
                except Exception:
                    ok = False
                if not ok:
                    del _BLOBS[k]
        finally:
            logging.disable(lvl)
    return sorted(_BLOBS)


def blob_font(key):
    """A 320-glyph TrueType font (built once with FontBuilder) carrying the blob as table `tag`, assembled by
    the independent sfnt writer."""
    if key not in _BLOBS:
        _BLOBS[key] = _harvest_blobs()[key]  # (a replay in a fresh interpreter names its blob directly)
    tag, data = _BLOBS[key]
    if "b" not in _BLOB_BASE:
        import io

        from fontTools.fontBuilder import FontBuilder
        from fontTools.ttLib.tables._g_l_y_f import Glyph

        fb = FontBuilder(1000, isTTF=True)
        names = [".notdef"] + ["g%03d" % i for i in range(1, 320)]
        fb.setupGlyphOrder(names)
        fb.setupCharacterMap({0x100 + i: n for i, n in enumerate(names) if i})
        fb.setupGlyf({n: Glyph() for n in names})
        fb.setupHorizontalMetrics({n: (500, 0) for n in names})
        fb.setupHorizontalHeader()
        fb.setupNameTable({"familyName": "Blob", "styleName": "R"})
        fb.setupOS2()
        fb.setupPost()
        fb.font["head"].created = fb.font["head"].modified = 3_600_000_000
        fb.font.recalcTimestamp = False
        b = io.BytesIO()
        fb.font.save(b)
        _BLOB_BASE["b"] = b.getvalue()
    from oracles import container

    tabs = dict(container.tables_of(_BLOB_BASE["b"]))
    tabs[tag] = data
    return container.rebuild_sfnt(_BLOB_BASE["b"][:4], tabs)
