"""Corpus discovery under /repo/Tests (sorted, so indices are stable) and
derived inputs: gen-1/gen-2 recompiles of binary fonts and TTX-derived fonts."""
import glob
import io
import logging
import os

from . import REPO

TESTS = os.path.join(REPO, "Tests")

_cache = {}


def _glob(*pats):
    out = []
    for p in pats:
        out.extend(glob.glob(os.path.join(TESTS, "**", p), recursive=True))
    return sorted(set(out))


def binaries():
    return [os.path.relpath(p, TESTS) for p in _glob("*.ttf", "*.otf")]


def containers():
    return [os.path.relpath(p, TESTS) for p in _glob("*.ttc", "*.otc", "*.woff", "*.woff2", "*.dfont")]


def ttx_files():
    return [os.path.relpath(p, TESTS) for p in _glob("*.ttx")]


def fea_files():
    return [os.path.relpath(p, TESTS) for p in _glob("*.fea")]


def designspaces():
    return [os.path.relpath(p, TESTS) for p in _glob("*.designspace")]


def ufos():
    return [os.path.relpath(p, TESTS) for p in _glob("*.ufo")]


def path(rel):
    return os.path.join(TESTS, rel)


def raw(rel):
    k = ("raw", rel)
    if k not in _cache:
        with open(path(rel), "rb") as f:
            _cache[k] = f.read()
    return _cache[k]


def _recompile(data):
    from fontTools.ttLib import TTFont

    f = TTFont(io.BytesIO(data), recalcTimestamp=False, lazy=False)
    f.ensureDecompiled()
    out = io.BytesIO()
    f.save(out)
    return out.getvalue()


def compute_gen2(key):
    """key: 'bin:<rel>' or 'ttx:<rel>'. Returns gen-2 bytes when the font is a
    recompile fixed point, else a string reason. Never raises."""
    lvl = logging.root.manager.disable
    logging.disable(logging.CRITICAL)
    try:
        kind, rel = key.split(":", 1)
        try:
            if kind == "bin":
                src = raw(rel)
            else:
                from fontTools.ttLib import TTFont

                f = TTFont(recalcTimestamp=False)
                f.importXML(path(rel))
                b = io.BytesIO()
                f.save(b)
                src = b.getvalue()
            g1 = _recompile(src)
            g2 = _recompile(g1)
        except BaseException as e:  # noqa
            if isinstance(e, (KeyboardInterrupt, SystemExit)):
                raise
            return "exc:%s" % type(e).__name__
        if g1 != g2:
            return "not-fixed-point"
        if "maxp" not in _tags(g2) or "head" not in _tags(g2):
            return "no-head-or-maxp"
        return g2
    finally:
        logging.disable(lvl)


def _tags(data):
    import struct

    n = struct.unpack_from(">H", data, 4)[0]
    return {data[12 + 16 * i : 16 + 16 * i].decode("latin1") for i in range(n)}


def gen2(key):
    k = ("gen2", key)
    if k not in _cache:
        _cache[k] = compute_gen2(key)
    v = _cache[k]
    return v if isinstance(v, bytes) else None


def put_gen2(key, val):
    _cache[("gen2", key)] = val


def all_gen2_keys():
    return ["bin:" + r for r in binaries()] + ["ttx:" + r for r in ttx_files()]


def compute_gen2_cached(key):
    k = ("gen2", key)
    if k not in _cache:
        _cache[k] = compute_gen2(key)
    return _cache[k]


_BY_TAG = {}


def keys_by_tag():
    """{table tag: [gen-2 keys of eligible fonts that contain it]} — lets a generator pick a table kind
    first and a font second, so that rare table kinds are not drowned by the common ones."""
    if not _BY_TAG and os.environ.get("VERIF_TAGINDEX") and os.path.exists(os.environ["VERIF_TAGINDEX"]):
        # written by the parent check process (same tree, same code) so that the fresh interpreters it
        # starts do not recompile the whole corpus just to make the same choice
        import json

        with open(os.environ["VERIF_TAGINDEX"]) as f:
            _BY_TAG.update(json.load(f))
    if not _BY_TAG:
        for k in all_gen2_keys():
            g = gen2(k)
            if g is None:
                continue
            try:
                for t in sorted(_tags(g)):
                    _BY_TAG.setdefault(t, []).append(k)
            except Exception:
                pass
    return _BY_TAG


def publish_tag_index():
    """Writes keys_by_tag() to a scratch file and exports its path to child interpreters."""
    import atexit
    import json
    import tempfile

    bt = keys_by_tag()
    fd, path = tempfile.mkstemp(prefix="verif-tagindex-", suffix=".json")
    with os.fdopen(fd, "w") as f:
        json.dump(bt, f)
    os.environ["VERIF_TAGINDEX"] = path
    pid = os.getpid()

    def _rm():
        if os.getpid() == pid:
            try:
                os.remove(path)
            except OSError:
                pass

    atexit.register(_rm)
    return path
