"""Deterministic-simulation kernel for the fontTools verification checks.

Importing this package puts /repo/Lib first on sys.path and asserts that
fontTools is imported from the working tree, never from site-packages.
"""
import os
import sys

REPO = os.environ.get("VERIF_REPO", "/repo")
REPO_LIB = os.path.join(REPO, "Lib")
VERIF = os.path.dirname(os.path.dirname(os.path.abspath(__file__)))

if REPO_LIB not in sys.path[:1]:
    sys.path.insert(0, REPO_LIB)


def assert_tree():
    import fontTools

    here = os.path.realpath(fontTools.__file__)
    want = os.path.realpath(REPO_LIB)
    if not here.startswith(want + os.sep):
        raise SystemExit("HARNESS: fontTools imported from %s, not %s" % (here, want))
    return here
