"""One integer decides everything: labelled, independent sub-streams."""
import hashlib
import json
import random


def sub(*labels):
    """Random() seeded from a label path; adding a draw elsewhere never shifts this one."""
    key = "/".join(str(x) for x in labels).encode("utf-8")
    return random.Random(int.from_bytes(hashlib.sha256(key).digest()[:16], "big"))


def _canon(o):
    if isinstance(o, (bytes, bytearray, memoryview)):
        return {"__b": hashlib.sha256(bytes(o)).hexdigest(), "n": len(o)}
    if isinstance(o, dict):
        return {str(k): _canon(v) for k, v in sorted(o.items(), key=lambda kv: str(kv[0]))}
    if isinstance(o, (list, tuple)):
        return [_canon(x) for x in o]
    if isinstance(o, (set, frozenset)):
        return sorted((_canon(x) for x in o), key=lambda x: json.dumps(x, sort_keys=True))
    if isinstance(o, float):
        return repr(o)
    if o is None or isinstance(o, (str, int, bool)):
        return o
    return repr(o)


def canon(o):
    return _canon(o)


def digest(o):
    return hashlib.sha256(json.dumps(_canon(o), sort_keys=True, ensure_ascii=True).encode()).hexdigest()


def bdigest(b):
    return hashlib.sha256(bytes(b)).hexdigest()[:16]
