"""SimStream: file objects handed to the library, owned by the simulator.

Reading side: read(n) may legally return 1..n bytes on a non-file stream
(seeded), the stream may be unseekable, and may be text or binary.
Writing side: the j-th write can raise OSError(ENOSPC/EIO) or be short.
Every call is counted so probes can tell whether a fault actually fired.
"""
import errno
import io


class InjectedIOError(OSError):
    pass


class SimReadStream(io.RawIOBase):
    def __init__(self, data, rng=None, short=False, seekable=True, name=None, eof_at=None):
        super().__init__()
        self._b = bytes(data if eof_at is None else data[:eof_at])
        self._pos = 0
        self._rng = rng
        self._short = short
        self._seekable = seekable
        self.reads = 0
        self.short_reads = 0
        if name is not None:
            self.name = name

    def readable(self):
        return True

    def seekable(self):
        return self._seekable

    def read(self, n=-1):
        self.reads += 1
        if n is None or n < 0:
            # read() without a size means "until EOF" for every stream kind
            out = self._b[self._pos :]
            self._pos = len(self._b)
            return out
        want = n
        if self._short and n > 1 and self._rng is not None and self._rng.random() < 0.5:
            n = self._rng.randint(1, n)
        out = self._b[self._pos : self._pos + n]
        if len(out) < min(want, len(self._b) - self._pos):
            self.short_reads += 1
        self._pos += len(out)
        return out

    def readall(self):
        return self.read(-1)

    def readinto(self, buf):
        d = self.read(len(buf))
        buf[: len(d)] = d
        return len(d)

    def seek(self, pos, whence=0):
        if not self._seekable:
            raise io.UnsupportedOperation("seek")
        if whence == 0:
            self._pos = pos
        elif whence == 1:
            self._pos += pos
        else:
            self._pos = len(self._b) + pos
        self._pos = max(0, self._pos)
        return self._pos

    def tell(self):
        if not self._seekable:
            raise io.UnsupportedOperation("tell")
        return self._pos


class SimTextReadStream:
    """Text-mode reader (like sys.stdin): read(n) returns str, possibly short."""

    def __init__(self, text, rng=None, short=False):
        self._t = text
        self._pos = 0
        self._rng = rng
        self._short = short
        self.reads = 0

    def read(self, n=-1):
        self.reads += 1
        if n is None or n < 0:
            out = self._t[self._pos :]
            self._pos = len(self._t)
            return out
        if self._short and n > 1 and self._rng is not None and self._rng.random() < 0.5:
            n = self._rng.randint(1, n)
        out = self._t[self._pos : self._pos + n]
        self._pos += len(out)
        return out

    def close(self):
        pass


class SimWriteStream:
    """Destination stream. fail_at=j: the j-th write (0-based) raises; partial: it
    first stores a prefix of the data (a torn write) and then raises."""

    def __init__(self, seekable=True, fail_at=None, kind=errno.ENOSPC, partial=0.0):
        self._buf = io.BytesIO()
        self._seekable = seekable
        self.fail_at = fail_at
        self.kind = kind
        self.partial = partial
        self.writes = 0
        self.fired = 0
        self.closed = False

    def writable(self):
        return True

    def seekable(self):
        return self._seekable

    def write(self, data):
        j = self.writes
        self.writes += 1
        if self.fail_at is not None and j == self.fail_at:
            self.fired += 1
            if self.partial:
                k = int(len(data) * self.partial)
                self._buf.write(bytes(data[:k]))
            raise InjectedIOError(self.kind, "injected " + errno.errorcode[self.kind])
        return self._buf.write(data)

    def seek(self, pos, whence=0):
        if not self._seekable:
            raise io.UnsupportedOperation("seek")
        return self._buf.seek(pos, whence)

    def tell(self):
        if not self._seekable:
            raise io.UnsupportedOperation("tell")
        return self._buf.tell()

    def flush(self):
        pass

    def close(self):
        self.closed = True

    def getvalue(self):
        return self._buf.getvalue()
