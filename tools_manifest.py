#!/venv/bin/python
"""Regenerates MANIFEST.json from one place (run after adding a check)."""
import json, os, subprocess

NA = {
 "C02": "pure function of generated table content (encode/decode of values): no schedule, clock, fault, crash point or shared state in the statement or the anchored code; needs a value generator and an independent reader, not a simulator",
 "C05": "pure function of (font, glyph, location) compared with independent implementations: differential testing, nothing for a simulator to schedule or fault",
 "C07": "pure function of (font, subset request, options); its nondeterminism facet (set iteration order) and its statefulness facet (lazy mode, prior observations) are exercised under C16 where subsetting is an EDIT op",
 "C08": "pure function of (font, axis limits, location); the only stateful element (lru_cache on rebaseTent) is input-keyed; instancing runs as an EDIT op under C16",
 "C09": "pure arithmetic over master locations and deltas; exact-rational checking is the right tool, not simulation",
 "C10": "pure function of (designspace, masters); no I/O fault or history in the statement (varLib.build runs as a workload in C16's hash-seed catalogue and C20's path-confinement check)",
 "C11": "pure function of the feature program; needs a grammar generator and a reference interpreter",
 "C12": "pure function of the charstring program",
 "C13": "pure numeric function over a continuous domain",
 "C14": "a pen is driven by a call sequence but with no fault, clock or shared state: input generation over sequences, not simulation",
 "C15": "pure codecs; where the domain is small the right method is exhaustive enumeration (model checking), explicitly not this technique family",
 "C17": "pure function of (font, permutation or scale factor); reorderGlyphs and scale_upem run as EDIT ops under C16, which is how five defects of reorderGlyphs' interaction with lazy loading were found and fixed",
 "C18": "pure function of the ordered input list; timestamp and ordering facets are covered by C16",
}

CHECKS = {
 "C16": dict(
   level="exploration", design_ref="DESIGN.md 3.1",
   text="Seeded simulated histories (OBSERVE ops that must be invisible, EDIT ops, saves at seeded points incl. WOFF sessions, failed saves injected at table.compile and at the destination stream) on real TTFont and TTCollection objects over simulator-owned streams, clock and environment, each compared byte-for-byte with a fresh edit-only replica; observe-only, second-save and dump-stability oracles; clock regimes incl. a member saved after its collection; a catalogue of 21 pipelines (recompile, TTX, feature files incl. generated ones, subset, instancer, mutator, varLib.build, merge, CFF conversions, WOFF2, ttx -m, feature variations ...) re-run in fresh interpreters under several PYTHONHASHSEED values and after recorded prefixes of other runs (process-history independence); determinism self-test mismatches are turned into such histories. Sampling, not proof: a clean batch is evidence over the histories explored.",
   note="Trusted: the harness-side sfnt reader (oracles/container.py) used to name differing tables; gen-2 corpus inputs computed on the same tree; CPython, zlib, brotli as installed. The replica copies the decoded-table sets of the observed font (known findings K1/K2), so a recalculation that silently depends on what is decoded is C04's to see, not this check's.",
   technique="deterministic simulation: seeded operation/fault histories vs fresh-replica reference model, hash-seed and clock replicas"),
 "C20": dict(
   level="fault_enumeration", design_ref="DESIGN.md 3.2",
   text="Storage-fault enumeration on stored font images (every truncation length of small fonts, every header/directory byte x {00, FF, bit flips}, torn and zero-filled images, garbage), undecodable-payload injection per table with ignoreDecompileErrors, compile failure injected at every loaded table during save to an existing path (TTFont, TTCollection, CLI wrappers), and hostile text values run under an audit-hook + file-system monitor.",
   note="Trusted: audit hooks see every exec/compile/import/open; the independent sfnt re-packer; canary families are finite (expression, format-string, import, entity and path-traversal families incl. balanced and exactly-deep-enough ones). Extension buckets (TTC/WOFF2 truncation) are observed, not judged. Damaged tables shared by collection members are judged for the tables outside findings K3-K7.",
   technique="deterministic simulation: enumerated storage faults, crash points at table.compile, audit-hook monitor for hostile text"),
 "C19": dict(
   level="exploration", design_ref="DESIGN.md 3.3",
   text="Stateful simulation of UFOWriter/UFOReader/GlyphSet, DesignSpaceDocument and plist round trips over an in-memory, optionally case-insensitive file system with seeded listdir order (plus the real OSFS and zip backends), against dict reference models, with close/reopen as restart, failing glyph writes (draw callback raising, disk full) as faults, invariants on file names after every step, withdrawn attributes judged as gone, and in-place edits of axis maps against a fresh-axis replica.",
   note="Trusted: SimFS implements the FS interface faithfully (cross-checked against OSFS on a sample); generators produce spec-valid records by construction.",
   technique="deterministic simulation: seeded stateful histories over a simulated file system vs dict reference model"),
 "C01": dict(
   level="exploration", design_ref="DESIGN.md 3.4",
   text="Corpus sweep under simulated configurations: every corpus font (binaries, containers, the fonts the corpus TTX files compile to, and the table samples embedded in the table unit tests carried by a small font) behind seekable/unseekable/short-reading streams or a scratch path, lazy in {None,True,False}, seeded touch sets and orders; untouched tables must pass through byte-for-byte (against an independent tag->bytes reader), the loaded set must stay within a dependency closure, touched tables must keep their content, and gen-2 must equal gen-1. Sources are also presented as another conforming writer stores them (oracles/foreign.py, container.foreign_variant: undecodable cmap subtables, unsorted coverage, long loca, component flags, roomy bboxes, post 2.0 oddities, VDMX/hdmx/LTSH). Violations that depend on what the worker process ran before are replayed with the recorded schedule.",
   note="fontTools' own toXML is trusted as a content comparator (fields the compiler recalculates are masked narrowly). The independent writers are written from the specification and cross-checked with HarfBuzz / fontTools' reader.",
   technique="deterministic simulation: seeded configuration/access-order sweep vs tag->bytes reference model"),
 "C03": dict(
   level="exploration", design_ref="DESIGN.md 3.5",
   text="TTX import under simulated delivery schedules: seeded read sizes and short reads, BUFSIZE in {1..0x4000}, text vs binary streams, LF/CRLF/CR, split dumps, tables/skipTables selections merged onto the source font; all deliveries must import to byte-identical fonts and reproduce the table bytes of the source object model (free text after white-space normalisation, in free-text tables only); tables a merge did not import pass through untouched; a damaged table kept raw in ttx's default mode comes back as the same bytes. Inputs: corpus binaries, TTX-derived fonts, table samples of the unit tests, generated fonts with hostile glyph names / boundary instruction operands / cmap 14, foreign-writer variants, and EDITs (names, fixed-point values, glyph order, empty programs).",
   note="expat and lxml as installed.",
   technique="deterministic simulation: stream-delivery schedules (short reads, chunk boundaries) with byte-equality oracle"),
 "C04": dict(
   level="exploration", design_ref="DESIGN.md 3.6",
   text="Invariant monitor: every file written in seeded save configurations (flavour x WOFF2 transform set x reorderTables x recalcBBoxes x glyf padding x TTC sharing x destination kind), after seeded edits, after save-reopen-save and save-edit-save on one object, from sources as another writer stores them, and by the pipelines, is re-parsed by an independent sfnt/TTC/WOFF/WOFF2 reader; its derived fields (glyph and font bboxes, maxp, hhea/vhea extents and metric counts, loca, OS/2 character range, CFF font bbox) are recomputed from the saved data; a WOFF2's decoded loca is read against the format its head announces; flavour changes are compared table by table.",
   note="WOFF2 glyf reconstruction, the cmap decoder (for the OS/2 range) and the charstring interpreter (for the CFF bbox) are fontTools' own, applied to the saved file; the glyf/loca/hmtx/maxp recomputation is independent.",
   technique="deterministic simulation: configuration sweep with independent container/derived-field validator as invariant"),
 "C06": dict(
   level="fault_enumeration", design_ref="DESIGN.md 3.7",
   text="Fault injection at the HarfBuzz repacker seam (RepackerError/MemoryError/ValueError at every attempt index), repacker modes, compaction levels and second compiles; all serialisation paths must shape identically under HarfBuzz - at the design size, at 12 ppem (device tables) and off the default location (variation indices) - for corpus fonts, corpus and generated feature files, and generated overflow tables (pair, class, ligature, multiple, alternate, single-pos, mark-base, many lookups, mixed subtable formats, unsorted coverage from the independent writer) that must shape to the dict they were built from.",
   note="HarfBuzz (uharfbuzz) is the trusted shaping oracle.",
   technique="deterministic simulation: fault enumeration at the repacker seam, shaping oracle"),
}

def main():
    here = os.path.dirname(os.path.abspath(__file__))
    built = [p for p in ["C01","C03","C04","C06","C16","C19","C20"] if os.path.exists(os.path.join(here, "props", p.lower()+".py"))]
    hooks = []
    m = {
     "version": 1,
     "setup_cmd": "cd /verif && ./check setup",
     "hooks": {"guard": "FONTTOOLS_VERIF", "enable": "none needed: every seam is a constructor argument, module attribute or ABC the code already has (DESIGN 2.11); checks import /repo/Lib directly",
               "baseline_off_cmd": "cd /repo && PYTHONPATH=/repo/Lib /venv/bin/python -m pytest -q -p no:cacheprovider --timeout=900",
               "source_commits": hooks, "add_only": True},
     "engines": [{"name": "sim", "path": "/verif/sim", "serves_properties": built, "kind_free_text": "deterministic simulation kernel: labelled PRNG sub-streams from VERIF_SEED, SimClock, SimStream, SimFS, fault plans, fork pool with watchdogs, ddmin minimiser, replay files, fresh-interpreter determinism self-test"}],
     "checks": [],
     "not_applicable": [],
     "notes": "Technique family: deterministic simulation with fault injection (DESIGN.md). fix: commits in /repo are listed in known_findings.json.",
    }
    for pid in built:
        c = CHECKS[pid]
        m["checks"].append({
          "property_id": pid,
          "quick_cmd": "./check %s --tier quick" % pid,
          "thorough_cmd": "./check %s --tier thorough" % pid,
          "evidence_file": "/verif/evidence/%s.json" % pid,
          "replay_cmd_template": "./check %s --replay {path}" % pid,
          "engine": "sim",
          "level_claimed": {"category": c["level"], "text": c["text"], "design_ref": c["design_ref"]},
          "level_note": c["note"],
          "technique": c["technique"],
        })
    for pid, reason in sorted(NA.items()):
        m["not_applicable"].append({"property_id": pid, "reason": reason})
    for pid in ["C01","C03","C04","C06","C16","C19","C20"]:
        if pid not in built:
            m["not_applicable"].append({"property_id": pid, "reason": "not claimed yet: the check designed in DESIGN.md section 3 is still under construction"})
    with open(os.path.join(here, "MANIFEST.json"), "w") as f:
        json.dump(m, f, indent=1); f.write("\n")
    print("MANIFEST.json:", [c["property_id"] for c in m["checks"]])

if __name__ == "__main__":
    main()
