"""Planned mutants (DESIGN 'Planned mutants' per property): name -> edits + the check invocation that must catch it."""

MUTANTS = {
    # ---- C20
    "c20_safeeval_is_eval": {
        "edits": [("Lib/fontTools/misc/textTools.py", "safeEval = ast.literal_eval", "safeEval = eval")],
        "check": ["C20", "--tier", "quick", "--only", "text", "--scale", "0.5"],
    },
    "c20_varlib_vfname_unsanitised": {
        "edits": [("Lib/fontTools/varLib/__init__.py", 'filename = os.path.basename(vf.name) + ".{ext}"', 'filename = vf.name + ".{ext}"')],
        "check": ["C20", "--tier", "quick", "--only", "text", "--scale", "0.5"],
    },
    "c20_varlib_vffilename_unsanitised": {
        "edits": [("Lib/fontTools/varLib/__init__.py", "filename = os.path.basename(vf.filename)", "filename = vf.filename")],
        "check": ["C20", "--tier", "quick", "--only", "text", "--scale", "0.5"],
    },
    "c20_osfs_unconfined": {
        "edits": [("Lib/fontTools/misc/filesystem/_osfs.py", "                    raise IllegalBackReference(rel_path)", "                    pass")],
        "check": ["C20", "--tier", "quick", "--only", "text", "--scale", "0.5"],
    },
    "c20_direntry_no_length_check": {
        "edits": [("Lib/fontTools/ttLib/sfnt.py", "        if len(data) != self.formatSize:", "        if False:")],
        "check": ["C20", "--tier", "quick", "--only", "storage", "--scale", "0.3"],
    },
    "c20_loaddata_no_length_check": {
        "edits": [("Lib/fontTools/ttLib/sfnt.py", "        if len(data) != self.length:", "        if False:")],
        "check": ["C20", "--tier", "quick", "--only", "storage", "--scale", "0.3"],
    },
    "c20_ttfont_save_opens_first": {
        "edits": [("Lib/fontTools/ttLib/ttFont.py", "        tmp = BytesIO()\n\n        writer_reordersTables = self._save(tmp)", "        if createStream:\n            open(file, \"wb\").close()\n        tmp = BytesIO()\n\n        writer_reordersTables = self._save(tmp)")],
        "check": ["C20", "--tier", "quick", "--only", "failsave"],
    },
    "c20_ttcollection_save_opens_first": {
        "edits": [("Lib/fontTools/ttLib/ttCollection.py", "        final = file\n        file = BytesIO()\n", "        final = file\n        if not hasattr(final, \"write\"):\n            open(final, \"wb\").close()\n        file = BytesIO()\n")],
        "check": ["C20", "--tier", "quick", "--only", "failsave"],
    },
    "c20_readtable_fallback_loses_data": {
        "edits": [("Lib/fontTools/ttLib/ttFont.py", "            table.ERROR = file.getvalue()\n            self.tables[tag] = table\n            table.decompile(data, self)", "            table.ERROR = file.getvalue()\n            self.tables[tag] = table\n            table.decompile(data[:-1], self)")],
        "check": ["C20", "--tier", "quick", "--only", "payload"],
    },
    # ---- C19
    "c19_clash_without_lower": {
        "edits": [("Lib/fontTools/ufoLib/filenames.py", "    if fullName.lower() in existing:\n        fullName = handleClash1(userName, existing, prefix, suffix)", "    if fullName in existing:\n        fullName = handleClash1(userName, existing, prefix, suffix)")],
        "check": ["C19", "--tier", "quick", "--only", "ufo,names"],
    },
    "c19_identical_shortcut_wrong_file": {
        "edits": [("Lib/fontTools/ufoLib/glifLib.py", "            and data == self.fs.readbytes(fileName)", "            and len(data) == len(self.fs.readbytes(fileName))")],
        "check": ["C19", "--tier", "quick", "--only", "ufo"],
    },
    "c19_rename_keeps_old_mapping": {
        "edits": [("Lib/fontTools/ufoLib/__init__.py", "        if layerName is not None:\n            del self.layerContents[layerName]\n        self.layerContents[newLayerName] = newDirectory", "        self.layerContents[newLayerName] = newDirectory")],
        "check": ["C19", "--tier", "quick", "--only", "ufo"],
    },
    "c19_filename_clip_before_reserved": {
        "edits": [("Lib/fontTools/ufoLib/filenames.py", "        escapedName = \".\".join(parts)[:sliceLength]", "        escapedName = \".\".join(parts)")],
        "check": ["C19", "--tier", "quick", "--only", "ufo,names"],
    },
    "c19_designspace_drops_attribute": {
        "edits": [("Lib/fontTools/designspaceLib/__init__.py", '        if axisObject.hidden:\n            axisElement.attrib["hidden"] = "1"', '        if False:\n            axisElement.attrib["hidden"] = "1"')],
        "check": ["C19", "--tier", "quick", "--only", "designspace"],
    },
    "c19_plist_string_rstrip": {
        "edits": [("Lib/fontTools/misc/plistlib/__init__.py", "    el = etree.Element(\"string\")\n    el.text = value\n    return el", "    el = etree.Element(\"string\")\n    el.text = value.rstrip()\n    return el")],
        "check": ["C19", "--tier", "quick", "--only", "plist"],
    },
    "c19_glif_anchor_color_dropped": {
        "edits": [("Lib/fontTools/ufoLib/glifLib.py", '        color = anchor.get("color")\n        if color is not None:\n            attrs["color"] = color', '        color = None')],
        "check": ["C19", "--tier", "quick", "--only", "ufo"],
    },
    "c19_map_backward_off": {
        "edits": [("Lib/fontTools/designspaceLib/__init__.py", "        backward = sorted((design, user) for user, design in axis_map)", "        backward = sorted((design, user + (1 if user > self.default else 0)) for user, design in axis_map)")],
        "check": ["C19", "--tier", "quick", "--only", "designspace"],
    },
    # ---- C16
    "c16_cff_shared_default_list": {
        "edits": [("Lib/fontTools/cffLib/__init__.py", "                value = list(value)\n        if value is None:", "                pass\n        if value is None:")],
        "check": ["C16", "--tier", "quick", "--only", "order", "--scale", "3"],
    },
    "c16_varstore_cached": {
        "edits": [("Lib/fontTools/cffLib/__init__.py", "        if varStoreData.otVarStore is not None or not varStoreData.data:", "        if not varStoreData.data:")],
        "check": ["C16", "--tier", "quick", "--only", "hist,hist_ensure"],
    },
    "c16_basetable_compile_mutates": {
        "edits": [("Lib/fontTools/ttLib/tables/otBase.py", "            deleteFormat = False\n            table = self.__dict__.copy()", "            deleteFormat = False\n            table = self.__dict__")],
        "check": ["C16", "--tier", "quick", "--only", "hist,hist_ensure,second_save"],
    },
    "c16_head_stamps_always": {
        "edits": [("Lib/fontTools/ttLib/tables/_h_e_a_d.py", "        if ttFont.recalcTimestamp:", "        if True:")],
        "check": ["C16", "--tier", "quick", "--only", "clock,hist"],
    },
    "c16_ignores_source_date_epoch": {
        "edits": [("Lib/fontTools/misc/timeTools.py", "    if source_date_epoch is not None:", "    if False:")],
        "check": ["C16", "--tier", "quick", "--only", "clock,hist"],
    },
    "c16_ttc_no_shared_timestamp": {
        "edits": [("Lib/fontTools/ttLib/ttCollection.py", "        with _sharedModifiedTimestamp(self.fonts):", "        if True:")],
        "check": ["C16", "--tier", "quick", "--only", "clock"],
    },
    "c01_gettabledata_compiles_unloaded": {
        "edits": [("Lib/fontTools/ttLib/ttFont.py", "        elif self.reader and tag in self.reader:\n            log.debug(\"Reading '%s' table from disk\", tag)\n            return self.reader[tag]", "        elif self.reader and tag in self.reader:\n            return self[tag].compile(self)")],
        "check": ["C01", "--tier", "quick"],
    },
    "c16_lazy_ligatures_not_decompiled": {
        "edits": [("Lib/fontTools/ttLib/tables/otTables.py", "                for lig in ligs:\n                    lig.ensureDecompiled(recurse)", "                pass")],
        "check": ["C16", "--tier", "quick", "--only", "hist,hist_ensure"],
    },
    # ---- C01
    "c01_defaulttable_strips_nuls": {
        "edits": [("Lib/fontTools/ttLib/tables/DefaultTable.py", "    def compile(self, ttFont: TTFont) -> bytes:\n        return self.data", "    def compile(self, ttFont: TTFont) -> bytes:\n        return self.data.rstrip(b\"\\0\")")],
        "check": ["C01", "--tier", "quick"],
    },
    "c01_keys_decodes": {
        "edits": [("Lib/fontTools/ttLib/ttFont.py", "        keys = list(self.tables.keys())\n        if self.reader:", "        keys = list(self.tables.keys())\n        if self.reader and \"name\" in self.reader:\n            self[\"name\"]\n        if self.reader:")],
        "check": ["C01", "--tier", "quick"],
    },
    "c01_lazy_reader_wrong_entry": {
        "edits": [("Lib/fontTools/ttLib/sfnt.py", "        entry = self.tables[Tag(tag)]\n        data = entry.loadData(self.file)", "        entry = self.tables[Tag(tag)]\n        if tag == \"cvt \" and \"fpgm\" in self.tables and self.file.__class__.__name__ == \"BufferedReader\":\n            entry = self.tables[Tag(\"fpgm\")]\n        data = entry.loadData(self.file)")],
        "check": ["C01", "--tier", "quick"],
    },
    "c01_name_drops_langid_on_compile": {
        "edits": [("Lib/fontTools/ttLib/tables/_n_a_m_e.py", "        names = self.names\n        names.sort()", "        names = [n for n in self.names if n.nameID != 5]\n        names.sort()")],
        "check": ["C01", "--tier", "quick"],
    },
    "c01_silf_generator": {
        "edits": [("Lib/fontTools/ttLib/tables/S__i_l_f.py", "        self.rules = [list(rules[s:e]) for (s, e) in zip(oRuleMap, oRuleMap[1:])]", "        self.rules = [rules[s:e] for (s, e) in zip(oRuleMap, oRuleMap[1:])]")],
        "check": ["C01", "--tier", "quick"],
    },
    # ---- C03
    "c03_no_chunk_merge": {
        "edits": [("Lib/fontTools/misc/xmlReader.py", "                self.contentStack[-1][-1] += data\n            else:", "                self.contentStack[-1].append(data)\n            elif False:")],
        "check": ["C03", "--tier", "quick"],
    },
    "c03_escape_misses_amp": {
        "edits": [("Lib/fontTools/misc/xmlWriter.py", "    data = data.replace(\"&\", \"&amp;\")", "    data = data.replace(\"&&\", \"&amp;&amp;\")")],
        "check": ["C03", "--tier", "quick"],
    },
    "c03_fixed_one_digit_fewer": {
        "edits": [("Lib/fontTools/misc/roundTools.py", "    fmt = \"%%.%df\" % (i - period)\n    return fmt % value", "    fmt = \"%%.%df\" % max(1, i - period - 1)\n    return fmt % value")],
        "check": ["C03", "--tier", "quick"],
    },
    "c03_bufsize_boundary_drops_char": {
        "edits": [("Lib/fontTools/misc/xmlReader.py", "            chunk = file.read(BUFSIZE)\n            if not chunk:", "            chunk = file.read(BUFSIZE)\n            if len(chunk) == 7 and BUFSIZE == 7 and pos == 700:\n                chunk = chunk[:-1] + chunk[-1:].lower()\n            if not chunk:")],
        "check": ["C03", "--tier", "quick"],
    },
    "c16_class_numbering_by_set_order": {
        "edits": [("Lib/fontTools/otlLib/builder.py", "        result = sorted(self.classes_, key=lambda s: (-len(s), s))", "        result = sorted(self.classes_, key=lambda s: -len(s))")],
        "check": ["C16", "--tier", "quick", "--only", "hashsweep"],
    },
    # ---- C04
    "c04_checksum_unpadded": {
        "edits": [("Lib/fontTools/ttLib/sfnt.py", "    remainder = len(data) % 4\n    if remainder:\n        data += b\"\\0\" * (4 - remainder)", "    remainder = len(data) % 4\n    if remainder:\n        data = data[: len(data) - remainder]")],
        "check": ["C04", "--tier", "quick", "--only", "save"],
    },
    "c04_searchrange_wrong": {
        "edits": [("Lib/fontTools/ttLib/ttFont.py", "    rangeShift = max(0, n * itemSize - searchRange)", "    rangeShift = max(0, n * itemSize - searchRange) + (16 if n == 13 else 0)")],
        "check": ["C04", "--tier", "quick", "--only", "save"],
    },
    "c04_tablecache_by_tag_only": {
        "edits": [("Lib/fontTools/ttLib/ttFont.py", "            entry = tableCache.get((Tag(tag), tabledata))", "            entry = tableCache.get((Tag(tag), tabledata)) or (tableCache.get((Tag(tag), None)) if tag == \"OS/2\" else None)"), ("Lib/fontTools/ttLib/ttFont.py", "            tableCache[(Tag(tag), tabledata)] = writer[tag]", "            tableCache[(Tag(tag), tabledata)] = writer[tag]\n            tableCache[(Tag(tag), None)] = writer[tag]")],
        "check": ["C04", "--tier", "quick", "--only", "ttc"],
    },
    "c04_hmetrics_trimmed_too_far": {
        "edits": [("Lib/fontTools/ttLib/tables/_h_m_t_x.py", "            while metrics[lastIndex - 2][0] == lastAdvance:", "            while abs(metrics[lastIndex - 2][0] - lastAdvance) <= 1:")],
        "check": ["C04", "--tier", "quick", "--only", "save,pipe"],
    },
    "c04_woff_totalsfntsize_unpadded": {
        "edits": [("Lib/fontTools/ttLib/sfnt.py", "                self.totalSfntSize += (entry.origLength + 3) & ~3", "                self.totalSfntSize += entry.origLength")],
        "check": ["C04", "--tier", "quick", "--only", "save"],
    },
    "c04_maxp_depth_off": {
        "edits": [("Lib/fontTools/ttLib/tables/_m_a_x_p.py", "        self.maxComponentDepth = maxComponentDepth", "        self.maxComponentDepth = min(maxComponentDepth, 1)")],
        "check": ["C04", "--tier", "quick", "--only", "save,pipe"],
    },
    "c04_hhea_extent_ignores_lsb": {
        "edits": [("Lib/fontTools/ttLib/tables/_h_h_e_a.py", "                xMaxExtent = max(xMaxExtent, extent)", "                xMaxExtent = max(xMaxExtent, boundsWidth)")],
        "check": ["C04", "--tier", "quick", "--only", "save,pipe"],
    },
    "c04_last_table_not_padded": {
        "edits": [("Lib/fontTools/ttLib/sfnt.py", "        self.file.write(b\"\\0\" * (self.nextTableOffset - self.file.tell()))\n        assert self.nextTableOffset == self.file.tell()", "        if len(self.tables) + 1 < self.numTables:\n            self.file.write(b\"\\0\" * (self.nextTableOffset - self.file.tell()))")],
        "check": ["C04", "--tier", "quick", "--only", "save"],
    },
    # ---- C06
    "c06_offset_wraps": {
        "edits": [("Lib/fontTools/ttLib/tables/otBase.py", "                    try:\n                        items[i] = packUShort(item.subWriter.pos - pos)\n                    except struct.error:", "                    try:\n                        items[i] = packUShort((item.subWriter.pos - pos) & 0xFFFF)\n                    except struct.error:")],
        "check": ["C06", "--tier", "quick", "--only", "gen"],
    },
    "c06_splitpairpos_class_renumber": {
        "edits": [("Lib/fontTools/ttLib/tables/otTables.py", "            k: (v - oldCount) for k, v in classDefs.items() if v > oldCount", "            k: (v - oldCount + 1) for k, v in classDefs.items() if v > oldCount")],
        "check": ["C06", "--tier", "quick", "--only", "gen"],
    },
    "c06_splitpairpos_format1_drops_set": {
        "edits": [("Lib/fontTools/ttLib/tables/otTables.py", "        newSubTable.PairSet = records[oldCount:]", "        newSubTable.PairSet = records[oldCount:-1] + records[oldCount:oldCount + 1]")],
        "check": ["C06", "--tier", "quick", "--only", "gen"],
    },
    "c06_fallback_keeps_stale_positions": {
        "edits": [("Lib/fontTools/ttLib/tables/otBase.py", "            return writer.getAllData(remove_duplicate=False)", "            data = writer.getAllData(remove_duplicate=False)\n            return data[:-2] + data[-1:] + data[-2:-1] if len(data) > 64 else data")],
        "check": ["C06", "--tier", "quick", "--only", "corpus,fea"],
    },
    "c06_compact_drops_zero_row": {
        "edits": [("Lib/fontTools/otlLib/optimize/gpos.py", "    return (v1 is None or v1.getEffectiveFormat() == 0) and (", "    return (v1 is None or abs(getattr(v1, \"XAdvance\", 0) or 0) <= 3) and (")],
        "check": ["C06", "--tier", "quick", "--only", "gen,fea"],
    },
    # ---- added with the fixes and oracles of the second seeded round
    "c16_fealib_langsys_set_order": {
        "edits": [("Lib/fontTools/feaLib/builder.py", "        for script, lang in sorted(self.language_systems):\n            key = (script, lang, feature_name)", "        for script, lang in self.language_systems:\n            key = (script, lang, feature_name)")],
        "check": ["C16", "--tier", "quick", "--only", "hashsweep,order"],
    },
    "c16_subset_prop_set_order": {
        "edits": [("Lib/fontTools/subset/__init__.py", "            for g in sorted(s.glyphs)\n        }\n        mostCommon", "            for g in s.glyphs\n        }\n        mostCommon")],
        "check": ["C16", "--tier", "thorough", "--only", "hashsweep", "--scale", "0.5"],
    },
    "c16_colr_prewrite_sorts_object": {
        "edits": [("Lib/fontTools/ttLib/tables/otTables.py", "        table[\"BaseGlyphPaintRecord\"] = sorted(", "        table[\"BaseGlyphPaintRecord\"] = self.BaseGlyphPaintRecord = sorted(")],
        "check": ["C16", "--tier", "quick", "--only", "hist,hist_fail"],
    },
    "c16_subset_options_share_default_list": {
        "edits": [("Lib/fontTools/subset/__init__.py", "self._no_subset_tables_default[:]", "self._no_subset_tables_default")],
        "check": ["C16", "--tier", "quick", "--only", "order"],
    },
    "c19_writeglyph_lists_before_write": {
        "edits": [("Lib/fontTools/ufoLib/glifLib.py", "            fileName = self.glyphNameToFileName(glyphName, self._existingFileNames)\n        data = _writeGlyphToBytes(", "            fileName = self.glyphNameToFileName(glyphName, self._existingFileNames)\n            self.contents[glyphName] = fileName\n        data = _writeGlyphToBytes(")],
        "check": ["C19", "--tier", "quick", "--only", "ufo"],
    },
    "c19_writeglyph_clash_set_not_updated": {
        "edits": [("Lib/fontTools/ufoLib/glifLib.py", "            self.contents[glyphName] = fileName\n            self._existingFileNames.add(fileName.lower())", "            self.contents[glyphName] = fileName")],
        "check": ["C19", "--tier", "quick", "--only", "ufo"],
    },
    "c19_map_backward_stale_cache": {
        "edits": [("Lib/fontTools/designspaceLib/__init__.py", "        axis_map = self.get_validated_map()\n        if not axis_map:\n            return v\n        # Build (design, user)", "        axis_map = self.__dict__.setdefault(\"_bw\", self.get_validated_map())\n        if not axis_map:\n            return v\n        # Build (design, user)")],
        "check": ["C19", "--tier", "quick", "--only", "designspace"],
    },
    "c04_vhea_depends_on_hmtx": {
        "edits": [("Lib/fontTools/ttLib/tables/_v_h_e_a.py", 'dependencies = ["vmtx", "glyf", "CFF ", "CFF2"]', 'dependencies = ["hmtx", "glyf", "CFF ", "CFF2"]')],
        "check": ["C04", "--tier", "quick", "--only", "save"],
    },
    "c04_woff2_head_not_recompiled_after_loca": {
        "edits": [("Lib/fontTools/ttLib/woff2.py", "        self.ttFont[\"head\"].flags |= 1 << 11\n        self._compileTable(\"head\")", "        if self.ttFont[\"head\"].flags & (1 << 11):\n            return\n        self.ttFont[\"head\"].flags |= 1 << 11\n        self._compileTable(\"head\")")],
        "check": ["C04", "--tier", "quick", "--only", "save"],
    },
    "c03_loca_replaced_unless_loaded": {
        "edits": [("Lib/fontTools/misc/xmlReader.py", 'if tag == "loca" and tag in self.ttFont:', 'if tag == "loca" and self.ttFont.isLoaded(tag):')],
        "check": ["C03", "--tier", "quick"],
    },
    "c03_importxml_glyphorder_only_with_post": {
        "edits": [("Lib/fontTools/ttLib/ttFont.py", 'if "maxp" in self and ("post" in self or "CFF " in self):', 'if "maxp" in self and "post" in self:')],
        "check": ["C03", "--tier", "quick"],
    },
    "c01_cmap_alias_drops_unknown_data": {
        "edits": [("Lib/fontTools/ttLib/tables/_c_m_a_p.py", "                if not isinstance(table, cmap_format_unknown):\n                    table.data = None  # Mark as decompiled", "                table.data = None  # Mark as decompiled")],
        "check": ["C01", "--tier", "quick"],
    },
    "c01_coverage_sorted_before_numbering": {
        "edits": [("Lib/fontTools/ttLib/tables/otTables.py", "                index = 0\n                for i, (start, end) in enumerate(ranges):\n                    r = RangeRecord()\n                    r.StartID = start", "                ranges.sort()\n                index = 0\n                for i, (start, end) in enumerate(ranges):\n                    r = RangeRecord()\n                    r.StartID = start")],
        "check": ["C06", "--tier", "quick", "--only", "gen"],
    },
    "c06_markbase_split_wrong_slice": {
        "edits": [("Lib/fontTools/ttLib/tables/otTables.py", "        newBaseRecord.BaseAnchor = rec.BaseAnchor[oldClassCount:]", "        newBaseRecord.BaseAnchor = rec.BaseAnchor[-oldClassCount:]")],
        "check": ["C06", "--tier", "quick", "--only", "gen"],
    },
    "c06_compact_format1_first": {
        "edits": [("Lib/fontTools/otlLib/optimize/gpos.py", "    new_subtables = []\n    for subtable in subtables:\n        if subtable.Format == 1:\n            # Not doing anything to Format 1 (yet?)\n            new_subtables.append(subtable)\n        elif subtable.Format == 2:", "    new_subtables = [st for st in subtables if st.Format == 1]\n    for subtable in subtables:\n        if subtable.Format == 2:")],
        "check": ["C06", "--tier", "quick", "--only", "gen"],
    },
    "c20_varlib_twin_keeps_path": {
        "edits": [("Lib/fontTools/varLib/__init__.py", "                filename = os.path.basename(vf.filename)\n", "                filename = os.path.basename(vf.filename)\n                if any(os.path.basename(p) == filename for p in vf_name_to_output_path.values()):\n                    filename = vf.filename\n")],
        "check": ["C20", "--tier", "quick", "--only", "text"],
    },
    # ---- mirrors of round 3/4 changes and of the fixes found then
    "c19_writeinfo_keeps_old_file": {
        "edits": [("Lib/fontTools/ufoLib/__init__.py", "            self.removePath(FONTINFO_FILENAME, force=True, removeEmptyParents=False)", "            pass")],
        "check": ["C19", "--tier", "quick", "--only", "ufo"],
    },
    "c16_woff_version_pinned_on_flavordata": {
        "edits": [("Lib/fontTools/ttLib/sfnt.py", "                    self.majorVersion, self.minorVersion = struct.unpack(\n                        \">HH\", self.headTable[4:8]\n                    )", "                    self.majorVersion, self.minorVersion = struct.unpack(\n                        \">HH\", self.headTable[4:8]\n                    )\n                    data.majorVersion, data.minorVersion = self.majorVersion, self.minorVersion")],
        "check": ["C16", "--tier", "quick", "--only", "hist,hist_ensure,hist_fail"],
    },
    "c04_os2_char_range_needs_loaded_cmap": {
        "edits": [("Lib/fontTools/ttLib/tables/O_S_2f_2.py", '        if "cmap" not in ttFont:\n            return\n        codes = set()', '        if not ttFont.isLoaded("cmap"):\n            return\n        codes = set()')],
        "check": ["C04", "--tier", "quick", "--only", "save"],
    },
    "c06_really_zero_ignores_devices": {
        "edits": [("Lib/fontTools/otlLib/optimize/gpos.py", "    return (v1 is None or v1.getEffectiveFormat() == 0) and (\n        v2 is None or v2.getEffectiveFormat() == 0", "    return (v1 is None or v1.getEffectiveFormat() & 0x000F == 0) and (\n        v2 is None or v2.getEffectiveFormat() & 0x000F == 0")],
        "check": ["C06", "--tier", "quick", "--only", "fea"],
    },
    "c01_post_empty_name_replaced": {
        "edits": [("Lib/fontTools/ttLib/tables/_p_o_s_t.py", "            if glyphName in self.mapping:\n                psName = self.mapping[glyphName]\n            else:\n                psName = glyphName\n            if psName in extraDict:", "            psName = self.mapping.get(glyphName) or glyphName\n            if psName in extraDict:")],
        "check": ["C01", "--tier", "quick"],
    },
    "c16_dumping_drops_a_name_record": {
        "edits": [("Lib/fontTools/ttLib/tables/_n_a_m_e.py", "    def toXML(self, writer, ttFont):\n        for name in self.names:\n            name.toXML(writer, ttFont)\n", "    def toXML(self, writer, ttFont):\n        for name in self.names:\n            name.toXML(writer, ttFont)\n        if len(self.names) > 3:\n            self.names = self.names[:-1]\n")],
        "check": ["C16", "--tier", "quick", "--only", "hist,hist_ensure"],
    },
    # ---- added with the sixth round's ingredients
    "c04_hhea_cff_width_floors_xmax": {
        "edits": [("Lib/fontTools/ttLib/tables/_h_h_e_a.py", "                        math.ceil(bounds[2]) - math.floor(bounds[0])", "                        math.floor(bounds[2]) - math.floor(bounds[0])")],
        "check": ["C04", "--tier", "quick", "--only", "save"],
    },
    "c04_composite_keeps_component_extents": {
        "edits": [("Lib/fontTools/ttLib/tables/_g_l_y_f.py", "            if boundsDone is None or glyphName not in boundsDone:\n                try:\n                    g.recalcBounds(glyfTable, boundsDone=boundsDone)", "            if (boundsDone is None or glyphName not in boundsDone) and not hasattr(g, \"xMin\"):\n                try:\n                    g.recalcBounds(glyfTable, boundsDone=boundsDone)")],
        "check": ["C04", "--tier", "quick", "--only", "save"],
    },
    "c03_component_unit_scale_dropped_on_import": {
        "edits": [("Lib/fontTools/ttLib/tables/_g_l_y_f.py", "            scale = str2fl(attrs[\"scale\"], 14)\n            self.transform = [[scale, 0], [0, scale]]", "            scale = str2fl(attrs[\"scale\"], 14)\n            if scale != 1:\n                self.transform = [[scale, 0], [0, scale]]")],
        "check": ["C03", "--tier", "quick"],
    },
    # ---- added with the seventh round's ingredients
    "c04_vhea_extent_ignores_height": {
        "edits": [("Lib/fontTools/ttLib/tables/_v_h_e_a.py", "                extent = tsb + boundsHeight", "                extent = tsb")],
        "check": ["C04", "--tier", "quick", "--only", "save"],
    },
    "c01_vorg_compile_drops_default_records": {
        "edits": [("Lib/fontTools/ttLib/tables/V_O_R_G_.py", "        vOriginTable = list(zip(gids, vorgs))\n        self.numVertOriginYMetrics = len(vorgs)", "        vOriginTable = [r_ for r_ in zip(gids, vorgs) if r_[1] != self.defaultVertOriginY]\n        self.numVertOriginYMetrics = len(vOriginTable)")],
        "check": ["C01", "--tier", "quick"],
    },
}
