"""Planned mutants (DESIGN 'Planned mutants' per property): name -> edits + the check invocation that must catch it."""

MUTANTS = {
    # ---- C20
    "c20_safeeval_is_eval": {
        "edits": [("Lib/fontTools/misc/textTools.py", "safeEval = ast.literal_eval", "safeEval = eval")],
        "check": ["C20", "--tier", "quick", "--only", "text", "--scale", "0.5"],
    },
    "c20_varlib_vfname_unsanitised": {
        "edits": [("Lib/fontTools/varLib/__init__.py", 'filename = os.path.basename(vf.name) + ".{ext}"', 'filename = vf.name + ".{ext}"')],
        "check": ["C20", "--tier", "quick", "--only", "text", "--scale", "0.5"],
    },
    "c20_varlib_vffilename_unsanitised": {
        "edits": [("Lib/fontTools/varLib/__init__.py", "filename = os.path.basename(vf.filename)", "filename = vf.filename")],
        "check": ["C20", "--tier", "quick", "--only", "text", "--scale", "0.5"],
    },
    "c20_osfs_unconfined": {
        "edits": [("Lib/fontTools/misc/filesystem/_osfs.py", "                    raise IllegalBackReference(rel_path)", "                    pass")],
        "check": ["C20", "--tier", "quick", "--only", "text", "--scale", "0.5"],
    },
    "c20_direntry_no_length_check": {
        "edits": [("Lib/fontTools/ttLib/sfnt.py", "        if len(data) != self.formatSize:", "        if False:")],
        "check": ["C20", "--tier", "quick", "--only", "storage", "--scale", "0.3"],
    },
    "c20_loaddata_no_length_check": {
        "edits": [("Lib/fontTools/ttLib/sfnt.py", "        if len(data) != self.length:", "        if False:")],
        "check": ["C20", "--tier", "quick", "--only", "storage", "--scale", "0.3"],
    },
    "c20_ttfont_save_opens_first": {
        "edits": [("Lib/fontTools/ttLib/ttFont.py", "        tmp = BytesIO()\n\n        writer_reordersTables = self._save(tmp)", "        if createStream:\n            open(file, \"wb\").close()\n        tmp = BytesIO()\n\n        writer_reordersTables = self._save(tmp)")],
        "check": ["C20", "--tier", "quick", "--only", "failsave"],
    },
    "c20_ttcollection_save_opens_first": {
        "edits": [("Lib/fontTools/ttLib/ttCollection.py", "        final = file\n        file = BytesIO()\n", "        final = file\n        if not hasattr(final, \"write\"):\n            open(final, \"wb\").close()\n        file = BytesIO()\n")],
        "check": ["C20", "--tier", "quick", "--only", "failsave"],
    },
    "c20_readtable_fallback_loses_data": {
        "edits": [("Lib/fontTools/ttLib/ttFont.py", "            table.ERROR = file.getvalue()\n            self.tables[tag] = table\n            table.decompile(data, self)", "            table.ERROR = file.getvalue()\n            self.tables[tag] = table\n            table.decompile(data[:-1], self)")],
        "check": ["C20", "--tier", "quick", "--only", "payload"],
    },
}
