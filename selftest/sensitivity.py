#!/venv/bin/python
"""Sensitivity self-test (DESIGN 2.3): each mutant is applied to a scratch copy of
/repo/Lib (Tests symlinked), the check named with it is pointed at the copy through
VERIF_REPO and must report a VIOLATION (exit 1); the copy is removed afterwards.

usage: selftest/sensitivity.py [mutant-name ...]   (default: all)
"""
import json
import os
import shutil
import subprocess
import sys
import tempfile
import time

HERE = os.path.dirname(os.path.abspath(__file__))
VERIF = os.path.dirname(HERE)
sys.path.insert(0, HERE)
from mutants import MUTANTS  # noqa: E402


def run_one(name, spec, keep_output=False):
    scratch = tempfile.mkdtemp(prefix="verif-mut-")
    try:
        shutil.copytree("/repo/Lib", os.path.join(scratch, "Lib"))
        os.symlink("/repo/Tests", os.path.join(scratch, "Tests"))
        for rel, old, new in spec["edits"]:
            p = os.path.join(scratch, rel)
            s = open(p).read()
            if s.count(old) != 1:
                return {"name": name, "status": "PATCH-FAILED", "detail": "%s: %d matches" % (rel, s.count(old))}
            open(p, "w").write(s.replace(old, new))
        env = dict(os.environ, VERIF_REPO=scratch, PYTHONHASHSEED="0")
        t0 = time.time()
        cp = subprocess.run([os.path.join(VERIF, "check")] + spec["check"] + ["--no-evidence", "--no-selftest"], capture_output=True, text=True, env=env, timeout=spec.get("timeout", 1200))
        viol = [ln for ln in cp.stdout.splitlines() if ln.startswith("VIOLATION")]
        cls = [ln.strip() for ln in cp.stdout.splitlines() if ln.strip().startswith("class=")]
        status = "KILLED" if cp.returncode == 1 and viol else ("SURVIVED" if cp.returncode == 0 else "HARNESS(rc=%d)" % cp.returncode)
        out = {"name": name, "status": status, "wall_s": round(time.time() - t0, 1), "property": spec["check"][0], "classes": [c[:200] for c in cls[:3]]}
        if status != "KILLED" or keep_output:
            out["tail"] = (cp.stdout[-1500:] + cp.stderr[-500:])
        return out
    finally:
        shutil.rmtree(scratch, ignore_errors=True)


def main():
    names = sys.argv[1:] or sorted(MUTANTS)
    results = []
    for n in names:
        r = run_one(n, MUTANTS[n])
        results.append(r)
        print(json.dumps(r))
        sys.stdout.flush()
    killed = sum(r["status"] == "KILLED" for r in results)
    print("mutants: %d tried, %d killed" % (len(results), killed))
    if not sys.argv[1:]:
        with open(os.path.join(HERE, "sensitivity_results.json"), "w") as f:
            json.dump(results, f, indent=1)
    return 0 if killed == len(results) else 1


if __name__ == "__main__":
    sys.exit(main())
