"""Independent container reader + validator: sfnt, TTC, WOFF, WOFF2 directory.

Shares no code with fontTools (sfnt.py / woff2.py). Rules are limited to what
can be stated with certainty and is silent on every file the pinned tree writes
for the whole corpus (DESIGN 3.6, rule discipline).
"""
import struct
import zlib


def u16(b, o):
    return struct.unpack_from(">H", b, o)[0]


def i16(b, o):
    return struct.unpack_from(">h", b, o)[0]


def u32(b, o):
    return struct.unpack_from(">L", b, o)[0]


def csum(data):
    data = bytes(data) + b"\0" * ((-len(data)) % 4)
    return sum(struct.unpack(">%dL" % (len(data) // 4), data)) & 0xFFFFFFFF


SFNT_VERSIONS = (b"\0\1\0\0", b"OTTO", b"true", b"typ1")


class Bad(Exception):
    pass


def kind_of(b):
    m = bytes(b[:4])
    if m == b"ttcf":
        return "ttc"
    if m == b"wOFF":
        return "woff"
    if m == b"wOF2":
        return "woff2"
    if m in SFNT_VERSIONS:
        return "sfnt"
    return None


def ttc_offsets(b):
    if len(b) < 12 or b[:4] != b"ttcf":
        raise Bad("not a TTC")
    n = u32(b, 8)
    if 12 + 4 * n > len(b):
        raise Bad("TTC offset table out of bounds")
    return [u32(b, 12 + 4 * i) for i in range(n)]


def directory(b, off=0):
    """[(tag, checksum, offset, length)] of the sfnt whose header is at off."""
    if off + 12 > len(b):
        raise Bad("short header")
    n = u16(b, off + 4)
    if off + 12 + 16 * n > len(b):
        raise Bad("short directory")
    out = []
    for i in range(n):
        o = off + 12 + 16 * i
        out.append((bytes(b[o : o + 4]).decode("latin1"), u32(b, o + 4), u32(b, o + 8), u32(b, o + 12)))
    return out


def tables_of(b, fontNumber=0):
    """tag -> bytes for any container kind (WOFF inflated; WOFF2 untransformed tables only
    plus '<transformed>' markers)."""
    b = bytes(b)
    k = kind_of(b)
    if k == "sfnt":
        off = 0
    elif k == "ttc":
        off = ttc_offsets(b)[fontNumber]
    elif k == "woff":
        return parse_woff(b)[1]
    elif k == "woff2":
        fl, tabs, errs, tot = parse_woff2(b)
        return {t: (d if not tr else b"<transformed>" + d) for t, (d, tr) in tabs.items()}
    else:
        raise Bad("unknown container")
    out = {}
    for tag, cs, to, ln in directory(b, off):
        if to + ln > len(b):
            raise Bad("table %r out of bounds" % tag)
        out[tag] = b[to : to + ln]
    return out


def order_of(b, off=0):
    """Physical table order (by offset) of an sfnt."""
    return [t for t, _, _, _ in sorted(directory(b, off), key=lambda e: e[2])]


def validate_sfnt(b, off=0, ttc=False, errs=None):
    b = bytes(b)
    errs = errs if errs is not None else []
    if off + 12 > len(b):
        errs.append("short header")
        return {}, errs
    ver = b[off : off + 4]
    n = u16(b, off + 4)
    sr, es, rs = u16(b, off + 6), u16(b, off + 8), u16(b, off + 10)
    if ver not in SFNT_VERSIONS:
        errs.append("bad sfnt version %r" % ver)
    e = 0
    while (1 << (e + 1)) <= n:
        e += 1
    if n and (sr, es, rs) != ((1 << e) * 16, e, n * 16 - (1 << e) * 16):
        errs.append("search fields %r for %d tables" % ((sr, es, rs), n))
    if off + 12 + 16 * n > len(b):
        errs.append("directory out of bounds")
        return {}, errs
    tabs = {}
    prev = None
    spans = []
    for i in range(n):
        o = off + 12 + 16 * i
        tag = b[o : o + 4]
        cs, to, ln = u32(b, o + 4), u32(b, o + 8), u32(b, o + 12)
        if prev is not None and tag <= prev:
            errs.append("directory not sorted/unique at %r" % tag)
        prev = tag
        if to % 4:
            errs.append("unaligned %r" % tag)
        if to + ln > len(b):
            errs.append("out of bounds %r" % tag)
            continue
        if to < off + 12 + 16 * n and not ttc:
            errs.append("table inside directory %r" % tag)
        data = b[to : to + ln]
        padded = (ln + 3) & ~3
        pad = b[to + ln : to + padded]
        if len(pad) != padded - ln or pad.strip(b"\0"):
            errs.append("padding %r" % tag)
        d2 = data
        if tag == b"head" and ln >= 12:
            d2 = data[:8] + b"\0\0\0\0" + data[12:]
        if csum(d2) != cs:
            errs.append("checksum %r" % tag)
        tabs[tag.decode("latin1")] = data
        spans.append((to, to + padded, tag))
    spans.sort()
    for (a0, a1, t0), (b0, b1, t1) in zip(spans, spans[1:]):
        if b0 < a1 and not (ttc and (a0, a1) == (b0, b1)):
            errs.append("overlap %r %r" % (t0, t1))
        if b0 > a1 and not ttc:
            errs.append("gap between %r %r" % (t0, t1))
    if not ttc:
        if spans and spans[0][0] != off + 12 + 16 * n:
            errs.append("gap after directory")
        if spans and spans[-1][1] != len(b):
            errs.append("file does not end at last table's padding")
        if "head" in tabs and len(tabs["head"]) >= 12:
            adj = u32(tabs["head"], 8)
            to = [s for s in spans if s[2] == b"head"][0][0]
            whole = b[: to + 8] + b"\0\0\0\0" + b[to + 12 :]
            if (0xB1B0AFBA - csum(whole)) & 0xFFFFFFFF != adj:
                errs.append("checkSumAdjustment")
    return tabs, errs


def validate_ttc(b):
    b = bytes(b)
    errs = []
    if b[:4] != b"ttcf":
        return [], ["not ttcf"]
    maj, mnr = u16(b, 4), u16(b, 6)
    if (maj, mnr) not in ((1, 0), (2, 0)):
        errs.append("TTC version %d.%d" % (maj, mnr))
    try:
        offs = ttc_offsets(b)
    except Bad as e:
        return [], [str(e)]
    members = []
    all_spans = {}
    hdr_end = 12 + 4 * len(offs) + (12 if maj == 2 else 0)
    for n, off in enumerate(offs):
        if off % 4:
            errs.append("member %d header unaligned" % n)
        if off < hdr_end:
            errs.append("member %d header inside TTC header" % n)
        tabs, e = validate_sfnt(b, off, ttc=True)
        errs.extend("member %d: %s" % (n, x) for x in e)
        members.append(tabs)
        try:
            for tag, cs, to, ln in directory(b, off):
                all_spans.setdefault((to, ln), set()).add(tag)
        except Bad:
            pass
    # any two table entries are identical or disjoint
    sp = sorted(all_spans)
    for (a0, al), (b0, bl) in zip(sp, sp[1:]):
        if b0 < a0 + ((al + 3) & ~3) and (a0, al) != (b0, bl):
            if not (a0 == b0):
                errs.append("TTC tables overlap without being identical: %r %r" % ((a0, al), (b0, bl)))
            else:
                errs.append("TTC tables share an offset with different lengths: %r %r" % ((a0, al), (b0, bl)))
    for (to, ln), tags in all_spans.items():
        if len(tags) > 1:
            errs.append("one stored table used under different tags %r" % sorted(tags))
    if maj == 2:
        o = 12 + 4 * len(offs)
        dtag, dlen, doff = b[o : o + 4], u32(b, o + 4), u32(b, o + 8)
        if dtag == b"\0\0\0\0":
            if dlen or doff:
                errs.append("TTC v2 null DSIG with nonzero length/offset")
        elif dtag != b"DSIG":
            errs.append("TTC v2 DSIG tag %r" % dtag)
    return members, errs


# ---- WOFF


def parse_woff(b):
    b = bytes(b)
    errs = []
    if len(b) < 44:
        return None, {}, ["short WOFF header"]
    sig, flavor, length, n, res, tot, maj, mnr, mo, ml, mol, po, pl = struct.unpack_from(">4s4sLHHLHHLLLLL", b, 0)
    if sig != b"wOFF":
        errs.append("sig")
    if length != len(b):
        errs.append("length %d vs %d" % (length, len(b)))
    if res:
        errs.append("reserved")
    if flavor not in SFNT_VERSIONS:
        errs.append("woff flavor %r" % flavor)
    tabs = {}
    prev = None
    spans = []
    sfntsize = 12 + 16 * n
    for i in range(n):
        o = 44 + 20 * i
        tag = b[o : o + 4]
        off, cl, ol, cs = struct.unpack_from(">4L", b, o + 4)
        if prev is not None and tag <= prev:
            errs.append("dir order %r" % tag)
        prev = tag
        if off % 4:
            errs.append("unaligned %r" % tag)
        if off + cl > len(b):
            errs.append("oob %r" % tag)
            continue
        raw = b[off : off + cl]
        if cl > ol:
            errs.append("comp>orig %r" % tag)
        try:
            data = raw if cl == ol else zlib.decompress(raw)
        except zlib.error:
            errs.append("zlib %r" % tag)
            continue
        if len(data) != ol:
            errs.append("origLength %r" % tag)
        d2 = data[:8] + b"\0\0\0\0" + data[12:] if tag == b"head" else data
        if csum(d2) != cs:
            errs.append("checksum %r" % tag)
        pad = b[off + cl : off + ((cl + 3) & ~3)]
        if pad.strip(b"\0"):
            errs.append("pad nonzero %r" % tag)
        spans.append((off, off + ((cl + 3) & ~3), tag))
        sfntsize += (ol + 3) & ~3
        tabs[tag.decode("latin1")] = data
    if tot != sfntsize:
        errs.append("totalSfntSize %d vs %d" % (tot, sfntsize))
    spans.sort()
    end = 44 + 20 * n
    for a0, a1, t in spans:
        if a0 < end:
            errs.append("overlap %r" % t)
        if a0 > end:
            errs.append("gap before %r" % t)
        end = a1
    if ml:
        if mo != end and mo != ((end + 3) & ~3):
            errs.append("meta offset %d vs end %d" % (mo, end))
        try:
            md = zlib.decompress(b[mo : mo + ml])
            if len(md) != mol:
                errs.append("metaOrigLength")
        except zlib.error:
            errs.append("meta zlib")
        end = mo + ml
    elif mo or mol:
        errs.append("meta fields nonzero")
    if pl:
        if po != ((end + 3) & ~3):
            errs.append("priv offset %d vs %d" % (po, (end + 3) & ~3))
        end = po + pl
    elif po:
        errs.append("priv fields nonzero")
    if len(b) != end and not (len(b) == ((end + 3) & ~3) and not b[end:].strip(b"\0")):
        errs.append("file end %d vs last block end %d" % (len(b), end))
    # whole-sfnt checksum of the reconstructed font
    if "head" in tabs and len(tabs["head"]) >= 12 and not errs:
        # the reconstructed sfnt keeps the table data in the order of the WOFF data blocks
        img = rebuild_sfnt(flavor, tabs, adj=u32(tabs["head"], 8), order=[t.decode("latin1") for _, _, t in spans])
        _, e2 = validate_sfnt(img)
        for x in e2:
            if x == "checkSumAdjustment":
                errs.append("reconstructed sfnt checkSumAdjustment")
    return flavor, tabs, errs


def rebuild_sfnt(version, tabs, adj=None, order=None):
    """Independent sfnt writer: directory sorted by tag, table data in `order` (default: tag
    order), 4-byte aligned, zero padded; head.checkSumAdjustment recomputed unless adj is given."""
    tags = sorted(tabs, key=lambda t: t.encode("latin1"))
    n = len(tags)
    if order is not None:
        return _rebuild_ordered(version, tabs, tags, list(order), adj)
    e = 0
    while (1 << (e + 1)) <= n:
        e += 1
    hdr = struct.pack(">4sHHHH", bytes(version), n, (1 << e) * 16 if n else 0, e if n else 0, (n * 16 - (1 << e) * 16) if n else 0)
    off = 12 + 16 * n
    recs = []
    body = []
    for t in tags:
        d = bytes(tabs[t])
        d2 = d[:8] + b"\0\0\0\0" + d[12:] if t == "head" and len(d) >= 12 else d
        recs.append(struct.pack(">4sLLL", t.encode("latin1"), csum(d2), off, len(d)))
        pad = (-len(d)) % 4
        body.append(d + b"\0" * pad)
        off += len(d) + pad
    img = bytearray(hdr + b"".join(recs) + b"".join(body))
    if "head" in tabs and len(tabs["head"]) >= 12:
        ho = 12 + 16 * n
        for t in tags:
            if t == "head":
                break
            ho += (len(tabs[t]) + 3) & ~3
        img[ho + 8 : ho + 12] = b"\0\0\0\0"
        if adj is None:
            adj = (0xB1B0AFBA - csum(img)) & 0xFFFFFFFF
        img[ho + 8 : ho + 12] = struct.pack(">L", adj)
    return bytes(img)


def _rebuild_ordered(version, tabs, tags, order, adj):
    n = len(tags)
    e = 0
    while (1 << (e + 1)) <= n:
        e += 1
    hdr = struct.pack(">4sHHHH", bytes(version), n, (1 << e) * 16 if n else 0, e if n else 0, (n * 16 - (1 << e) * 16) if n else 0)
    off = 12 + 16 * n
    offs = {}
    body = []
    for t in order:
        d = bytes(tabs[t])
        offs[t] = off
        pad = (-len(d)) % 4
        body.append(d + b"\0" * pad)
        off += len(d) + pad
    recs = []
    for t in tags:
        d = bytes(tabs[t])
        d2 = d[:8] + b"\0\0\0\0" + d[12:] if t == "head" and len(d) >= 12 else d
        recs.append(struct.pack(">4sLLL", t.encode("latin1"), csum(d2), offs[t], len(d)))
    img = bytearray(hdr + b"".join(recs) + b"".join(body))
    if "head" in tabs and len(tabs["head"]) >= 12:
        ho = offs["head"]
        img[ho + 8 : ho + 12] = b"\0\0\0\0"
        if adj is None:
            adj = (0xB1B0AFBA - csum(img)) & 0xFFFFFFFF
        img[ho + 8 : ho + 12] = struct.pack(">L", adj)
    return bytes(img)


# ---- WOFF2 (directory level)

KNOWN = ["cmap", "head", "hhea", "hmtx", "maxp", "name", "OS/2", "post", "cvt ", "fpgm", "glyf", "loca", "prep", "CFF ", "VORG", "EBDT", "EBLC", "gasp", "hdmx", "kern", "LTSH", "PCLT", "VDMX", "vhea", "vmtx", "BASE", "GDEF", "GPOS", "GSUB", "EBSC", "JSTF", "MATH", "CBDT", "CBLC", "COLR", "CPAL", "SVG ", "sbix", "acnt", "avar", "bdat", "bloc", "bsln", "cvar", "fdsc", "feat", "fmtx", "fvar", "gvar", "hsty", "just", "lcar", "mort", "morx", "opbd", "prop", "trak", "Zapf", "Silf", "Glat", "Gloc", "Feat", "Sill"]


def b128(b, o):
    v = 0
    for i in range(5):
        c = b[o]
        o += 1
        if i == 0 and c == 0x80:
            raise ValueError("leading zero")
        if v & 0xFE000000:
            raise ValueError("overflow")
        v = (v << 7) | (c & 0x7F)
        if not c & 0x80:
            return v, o
    raise ValueError("too long")


def parse_woff2(b):
    import brotli

    b = bytes(b)
    errs = []
    if len(b) < 48:
        return None, {}, ["short WOFF2 header"], 0
    sig, flavor, length, n, res, tot, tcs, maj, mnr, mo, ml, mol, po, pl = struct.unpack_from(">4s4sLHHLLHHLLLLL", b, 0)
    if sig != b"wOF2":
        errs.append("sig")
    if length != len(b):
        errs.append("length")
    if res:
        errs.append("reserved")
    o = 48
    ents = []
    try:
        for i in range(n):
            fl = b[o]
            o += 1
            if fl & 0x3F == 63:
                tag = b[o : o + 4].decode("latin1")
                o += 4
                if tag in KNOWN:
                    errs.append("known tag %r stored as arbitrary tag" % tag)
            else:
                tag = KNOWN[fl & 0x3F]
            ver = fl >> 6
            ol, o = b128(b, o)
            transformed = (ver == 0) if tag in ("glyf", "loca") else (ver != 0)
            tl = None
            if transformed:
                tl, o = b128(b, o)
            if tag == "loca" and transformed and tl != 0:
                errs.append("loca transformLength")
            if tag not in ("glyf", "loca", "hmtx") and ver != 0:
                errs.append("bad transform version %s" % tag)
            if tag in ("glyf", "loca") and ver not in (0, 3):
                errs.append("bad glyf/loca transform version")
            if tag == "hmtx" and ver not in (0, 1):
                errs.append("bad hmtx transform version")
            ents.append((tag, ver, ol, tl))
    except (ValueError, IndexError) as e:
        errs.append("directory: %s" % e)
        return flavor, {}, errs, tot
    tags = [e[0] for e in ents]
    if len(set(tags)) != len(tags):
        errs.append("dup tags")
    if "glyf" in tags or "loca" in tags:
        if not ("glyf" in tags and "loca" in tags):
            errs.append("glyf without loca or vice versa")
        else:
            gi, li = tags.index("glyf"), tags.index("loca")
            if gi > li:
                errs.append("glyf must precede loca")
            if (ents[gi][1] == 0) != (ents[li][1] == 0):
                errs.append("glyf/loca transform mismatch")
    comp = b[o : o + tcs]
    if len(comp) != tcs:
        errs.append("compressed oob")
    try:
        data = brotli.decompress(comp)
    except brotli.error:
        errs.append("brotli stream")
        return flavor, {}, errs, tot
    exp = sum((tl if tl is not None else ol) for _, _, ol, tl in ents)
    if len(data) != exp:
        errs.append("decompressed %d vs %d" % (len(data), exp))
    end = o + tcs
    tabs = {}
    p = 0
    for tag, ver, ol, tl in ents:
        ln = tl if tl is not None else ol
        tabs[tag] = (data[p : p + ln], tl is not None)
        p += ln
    if ml:
        if mo != ((end + 3) & ~3):
            errs.append("meta offset")
        end = mo + ml
    elif mo or mol:
        errs.append("meta fields nonzero")
    if pl:
        if po != ((end + 3) & ~3):
            errs.append("priv offset")
        end = po + pl
    elif po:
        errs.append("priv fields nonzero")
    if len(b) != ((end + 3) & ~3) and len(b) != end:
        errs.append("file end %d vs %d" % (len(b), end))
    if b[end:].strip(b"\0"):
        errs.append("trailing nonzero")
    return flavor, tabs, errs, tot


def validate_any(b):
    """(kind, list of member table dicts, errors)."""
    k = kind_of(b)
    if k == "sfnt":
        tabs, errs = validate_sfnt(b)
        return k, [tabs], errs
    if k == "ttc":
        members, errs = validate_ttc(b)
        return k, members, errs
    if k == "woff":
        fl, tabs, errs = parse_woff(b)
        return k, [tabs], errs
    if k == "woff2":
        fl, tabs, errs, tot = parse_woff2(b)
        return k, [{t: d for t, (d, tr) in tabs.items() if not tr}], errs
    return None, [], ["unknown container magic %r" % bytes(b[:4])]


def _last_component(glyf, a, e):
    """Offset of the flags word of the last component of the composite glyph stored at [a, e), and the end
    of its component records; None when the records do not parse or instructions follow already."""
    p = a + 10
    while True:
        if p + 4 > e:
            return None
        fl = u16(glyf, p)
        q = p + 4 + (4 if fl & 1 else 2)
        if fl & 8:
            q += 2
        elif fl & 0x40:
            q += 4
        elif fl & 0x80:
            q += 8
        if q > e:
            return None
        if not fl & 0x20:
            return (p, q) if not fl & 0x100 else None
        p = q


def foreign_variant(b, longloca=False, bit11=False, order_seed=None, glyph_pad4=False, loosebbox=None, compflags=None, emptyinstr=None, unitscale=None):
    """The same font as another conforming writer could have stored it: long 'loca' offsets although
    the glyph data is small (the reference WOFF2 decoder does this), head.flags bit 11 set (any font
    that went through WOFF2), table data laid out in another physical order. Plain single sfnt with
    a consistent short loca only; returns None otherwise. Checksums are recomputed."""
    if kind_of(b) != "sfnt":
        return None
    try:
        tabs = dict(tables_of(b))
    except Exception:
        return None
    changed = False
    if "head" in tabs and len(tabs["head"]) >= 54:
        head = bytearray(tabs["head"])
        if longloca and all(t in tabs for t in ("loca", "glyf", "maxp")) and i16(head, 50) == 0 and len(tabs["maxp"]) >= 6:
            loca = tabs["loca"]
            ng = u16(tabs["maxp"], 4)
            if len(loca) == 2 * (ng + 1):
                offs = struct.unpack(">%dH" % (ng + 1), loca)
                if all(x <= y for x, y in zip(offs, offs[1:])) and 2 * offs[-1] <= len(tabs["glyf"]):
                    tabs["loca"] = struct.pack(">%dL" % (ng + 1), *[2 * o for o in offs])
                    head[50:52] = struct.pack(">h", 1)
                    changed = True
        if loosebbox is not None and all(t in tabs for t in ("loca", "glyf", "maxp")) and i16(head, 50) == 0 and len(tabs["maxp"]) >= 6:
            # roomy (valid, not tight) bounding boxes in the headers of some simple glyphs, as hand-edited or
            # hinted-for-rasteriser fonts have; head's font bbox is widened to keep containing them
            import random

            rr = random.Random(loosebbox)
            ng = u16(tabs["maxp"], 4)
            loca = tabs["loca"]
            if len(loca) == 2 * (ng + 1):
                offs = [2 * o for o in struct.unpack(">%dH" % (ng + 1), loca)]
                glyf = bytearray(tabs["glyf"])
                n_done = 0
                for gi in range(ng):
                    a, e = offs[gi], offs[gi + 1]
                    if e - a >= 10 and e <= len(glyf) and i16(glyf, a) > 0 and rr.random() < 0.4:
                        x0, y0, x1, y1 = struct.unpack_from(">4h", glyf, a + 2)
                        if x0 > -32000 and y1 < 32000:
                            struct.pack_into(">4h", glyf, a + 2, x0 - rr.randint(1, 9), y0, x1, y1 + rr.randint(1, 9))
                            n_done += 1
                if n_done:
                    tabs["glyf"] = bytes(glyf)
                    fx0, fy0, fx1, fy1 = struct.unpack_from(">4h", head, 36)
                    struct.pack_into(">4h", head, 36, max(-32768, fx0 - 9), fy0, fx1, min(32767, fy1 + 9))
                    changed = True
        if emptyinstr is not None and all(t in tabs for t in ("loca", "glyf", "maxp")) and i16(head, 50) == 0 and len(tabs["maxp"]) >= 6:
            # composites that announce instructions (WE_HAVE_INSTRUCTIONS) and carry none (numInstr = 0), as
            # some hinting tools leave them; glyf and loca are rewritten with the two extra bytes
            import random

            rr = random.Random(emptyinstr)
            ng = u16(tabs["maxp"], 4)
            loca = tabs["loca"]
            if len(loca) == 2 * (ng + 1):
                offs = [2 * o for o in struct.unpack(">%dH" % (ng + 1), loca)]
                glyf = tabs["glyf"]
                out, noffs, n_done = bytearray(), [0], 0
                ok = offs[-1] <= len(glyf) and all(x <= y for x, y in zip(offs, offs[1:]))
                for gi in range(ng if ok else 0):
                    a, e = offs[gi], offs[gi + 1]
                    g = bytearray(glyf[a:e])
                    if e - a >= 16 and i16(glyf, a) < 0 and rr.random() < 0.6:
                        lc = _last_component(glyf, a, e)
                        if lc is not None:
                            p, q = lc[0] - a, lc[1] - a
                            struct.pack_into(">H", g, p, u16(g, p) | 0x100)
                            g = g[:q] + b"\0\0"
                            n_done += 1
                    if len(g) % 2:
                        g += b"\0"
                    out += g
                    noffs.append(len(out))
                if ok and n_done and noffs[-1] < 0x20000:
                    tabs["glyf"] = bytes(out)
                    tabs["loca"] = struct.pack(">%dH" % (ng + 1), *[o // 2 for o in noffs])
                    changed = True
        if unitscale is not None and all(t in tabs for t in ("loca", "glyf", "maxp")) and i16(head, 50) == 0 and len(tabs["maxp"]) >= 6:
            # first components that carry an explicit scale of exactly 1.0 (WE_HAVE_A_SCALE, F2Dot14 0x4000), as
            # editors leave them after a scale was reset; glyf and loca are rewritten with the two extra bytes
            import random

            rr = random.Random(unitscale)
            ng = u16(tabs["maxp"], 4)
            loca = tabs["loca"]
            if len(loca) == 2 * (ng + 1):
                offs = [2 * o for o in struct.unpack(">%dH" % (ng + 1), loca)]
                glyf = tabs["glyf"]
                out, noffs, n_done = bytearray(), [0], 0
                ok = offs[-1] <= len(glyf) and all(x <= y for x, y in zip(offs, offs[1:]))
                for gi in range(ng if ok else 0):
                    a, e = offs[gi], offs[gi + 1]
                    g = bytearray(glyf[a:e])
                    if e - a >= 16 and i16(glyf, a) < 0 and rr.random() < 0.6:
                        fl = u16(g, 10)
                        q = 14 + (4 if fl & 1 else 2)
                        if not fl & 0xC8 and q <= len(g):
                            struct.pack_into(">H", g, 10, fl | 0x8)
                            g = g[:q] + b"\x40\x00" + g[q:]
                            n_done += 1
                    if len(g) % 2:
                        g += b"\0"
                    out += g
                    noffs.append(len(out))
                if ok and n_done and noffs[-1] < 0x20000:
                    tabs["glyf"] = bytes(out)
                    tabs["loca"] = struct.pack(">%dH" % (ng + 1), *[o // 2 for o in noffs])
                    changed = True
        if compflags is not None and all(t in tabs for t in ("loca", "glyf", "maxp")) and i16(head, 50) == 0 and len(tabs["maxp"]) >= 6:
            # component flags other writers set: SCALED_COMPONENT_OFFSET (0x0800) or UNSCALED_COMPONENT_OFFSET
            # (0x1000) on the components of some composites (valid on any component; only one of the two)
            import random

            rr = random.Random(compflags)
            ng = u16(tabs["maxp"], 4)
            loca = tabs["loca"]
            if len(loca) == 2 * (ng + 1):
                offs = [2 * o for o in struct.unpack(">%dH" % (ng + 1), loca)]
                glyf = bytearray(tabs["glyf"])
                n_done = 0
                for gi in range(ng):
                    a, e = offs[gi], offs[gi + 1]
                    if e - a >= 16 and e <= len(glyf) and i16(glyf, a) < 0 and rr.random() < 0.6:
                        fl = u16(glyf, a + 10)
                        if not fl & 0x1800:
                            struct.pack_into(">H", glyf, a + 10, fl | rr.choice([0x0800, 0x0800, 0x1000]))
                            n_done += 1
                if n_done:
                    tabs["glyf"] = bytes(glyf)
                    changed = True
        if bit11 and not u16(head, 16) & 0x0800:
            head[16:18] = struct.pack(">H", u16(head, 16) | 0x0800)
            changed = True
        tabs["head"] = bytes(head)
    order = None
    if order_seed is not None:
        import random

        order = sorted(tabs, key=lambda t: t.encode("latin1"))
        random.Random(order_seed).shuffle(order)
        changed = True
    if not changed:
        return None
    return rebuild_sfnt(b[:4], tabs, order=order)
