"""HarfBuzz as an independent shaping oracle, driven by glyph ids.

Glyph ids are fed as Plane-15 private-use code points 0xF0000+gid through a
nominal-glyph function that subtracts the offset (raw glyph ids as code points would
be hidden by HarfBuzz as default-ignorables, e.g. gid 173 = U+00AD). Advances come
from hmtx through HarfBuzz' own ot funcs on a plain sub-font."""
import uharfbuzz as hb

PUA = 0xF0000


def make_font(data, ppem=None, variations=None):
    """ppem: device tables apply (hinted sizes); variations: {axis tag: user value} for variable fonts."""
    face = hb.Face(data)
    plain = hb.Font(face)
    font = hb.Font(face)
    for f in (plain, font):
        if ppem:
            f.ppem = (ppem, ppem)
        if variations:
            f.set_variations(variations)
    funcs = hb.FontFuncs.create()

    def nominal(font_, cp, ud):
        if cp >= PUA:
            return cp - PUA
        return 0

    def hadv(font_, gid, ud):
        return plain.get_glyph_h_advance(gid)

    funcs.set_nominal_glyph_func(nominal)
    funcs.set_glyph_h_advance_func(hadv)
    font.funcs = funcs
    return font, face


def script_langs(ttfont, limit=4):
    """(script, language) OpenType tags declared in GSUB/GPOS, DFLT first."""
    out = []
    for tag in ("GSUB", "GPOS"):
        if tag in ttfont and ttfont[tag].table.ScriptList:
            for sr in ttfont[tag].table.ScriptList.ScriptRecord:
                if sr.Script.DefaultLangSys is not None and (str(sr.ScriptTag), "dflt") not in out:
                    out.append((str(sr.ScriptTag), "dflt"))
                for lr in sr.Script.LangSysRecord:
                    if (str(sr.ScriptTag), str(lr.LangSysTag)) not in out:
                        out.append((str(sr.ScriptTag), str(lr.LangSysTag)))
    out.sort(key=lambda sl: (sl[0] != "DFLT", sl))
    return out[:limit] or [("DFLT", "dflt")]


def feature_tags(ttfont):
    tags = set()
    for tag in ("GSUB", "GPOS"):
        if tag in ttfont and ttfont[tag].table.FeatureList:
            for fr in ttfont[tag].table.FeatureList.FeatureRecord:
                tags.add(str(fr.FeatureTag))
    return sorted(tags)


def shape(font, gids, script="DFLT", lang="dflt", features=None, direction="ltr"):
    buf = hb.Buffer()
    buf.add_codepoints([PUA + g for g in gids])
    buf.direction = direction
    buf.set_script_from_ot_tag(script)
    buf.set_language_from_ot_tag(lang)
    hb.shape(font, buf, features or {})
    return [(i.codepoint, i.cluster, p.x_advance, p.y_advance, p.x_offset, p.y_offset) for i, p in zip(buf.glyph_infos, buf.glyph_positions)]


def interesting_glyphs(ttfont, limit=400):
    """Glyph ids that occur in coverage tables / class definitions / ligature components of GSUB/GPOS/GDEF."""
    from fontTools.ttLib.tables import otTables as ot

    names = []
    seen = set()

    def add(n):
        if n not in seen:
            seen.add(n)
            names.append(n)

    def walk(obj, depth=0):
        if depth > 12 or len(names) > limit * 4:
            return
        if isinstance(obj, ot.Coverage):
            for g in obj.glyphs[:40]:
                add(g)
            return
        if isinstance(obj, ot.ClassDef):
            for g in sorted(obj.classDefs)[:40]:
                add(g)
            return
        if isinstance(obj, ot.LigatureSubst):
            for first, ligs in list(obj.ligatures.items())[:40]:
                add(first)
                for lig in ligs[:8]:
                    for c in lig.Component:
                        add(c)
            return
        if isinstance(obj, (ot.SingleSubst, ot.MultipleSubst, ot.AlternateSubst)):
            for g in list(getattr(obj, "mapping", None) or getattr(obj, "alternates", {}))[:40]:
                add(g)
            return
        if hasattr(obj, "iterSubTables"):
            try:
                for st in obj.iterSubTables():
                    walk(st.value, depth + 1)
            except Exception:
                pass

    for tag in ("GSUB", "GPOS"):
        if tag in ttfont:
            walk(ttfont[tag].table)
    rev = ttfont.getReverseGlyphMap()
    return [rev[n] for n in names if n in rev][:limit]


def sequences(rng, num_glyphs, hot, n=30):
    """Coverage-guided glyph sequences: mostly hot glyphs, some arbitrary ones."""
    out = []
    for _ in range(n):
        ln = rng.randint(1, 6)
        seq = []
        for _ in range(ln):
            if hot and rng.random() < 0.8:
                seq.append(rng.choice(hot))
            else:
                seq.append(rng.randrange(num_glyphs))
        out.append(seq)
    # all ordered pairs of a few hot glyphs (pair positioning, ligatures)
    few = hot[:6]
    for a in few:
        for b in few:
            out.append([a, b])
    return out
