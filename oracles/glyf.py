"""Independent recomputation of the fields fontTools derives on save for TrueType
fonts: glyph and font bounding boxes, the six maxp maxima, hhea extents and metric
counts, loca format / monotonicity / bounds, hmtx length. Own glyf parser; shares no
code with fontTools."""
import struct


def u16(b, o):
    return struct.unpack_from(">H", b, o)[0]


def i16(b, o):
    return struct.unpack_from(">h", b, o)[0]


def parse_loca(tabs):
    """(format, numGlyphs, offsets, errors): loca read with the format head announces."""
    head, maxp, loca, glyf = tabs["head"], tabs["maxp"], tabs["loca"], tabs["glyf"]
    fmt = i16(head, 50)
    ng = u16(maxp, 4)
    errs = []
    if fmt == 0:
        offs = [2 * x for x in struct.unpack(">%dH" % (len(loca) // 2), loca[: len(loca) // 2 * 2])]
    elif fmt == 1:
        offs = list(struct.unpack(">%dL" % (len(loca) // 4), loca[: len(loca) // 4 * 4]))
    else:
        return fmt, ng, [], ["indexToLocFormat %d" % fmt]
    if len(offs) != ng + 1:
        errs.append("loca has %d entries, numGlyphs+1 is %d" % (len(offs), ng + 1))
    if any(a > b for a, b in zip(offs, offs[1:])):
        errs.append("loca not monotone")
    if offs and offs[-1] > len(glyf):
        errs.append("loca points beyond glyf (%d > %d)" % (offs[-1], len(glyf)))
    return fmt, ng, offs, errs


def parse_glyphs(tabs):
    glyf = tabs["glyf"]
    fmt, ng, offs, errs = parse_loca(tabs)
    if not offs and errs:
        return fmt, ng, [], [], errs
    glyphs = []
    for i in range(min(ng, len(offs) - 1)):
        d = glyf[offs[i] : offs[i + 1]]
        if len(d) == 0:
            glyphs.append(None)
            continue
        nc = i16(d, 0)
        bbox = struct.unpack_from(">4h", d, 2)
        if nc >= 0:
            ends = struct.unpack_from(">%dH" % nc, d, 10) if nc else ()
            npts = (ends[-1] + 1) if nc else 0
            p = 10 + 2 * nc
            il = u16(d, p)
            p += 2 + il
            flags = []
            while len(flags) < npts:
                f = d[p]
                p += 1
                flags.append(f)
                if f & 8:
                    r = d[p]
                    p += 1
                    flags.extend([f] * r)
            flags = flags[:npts]
            xs = []
            x = 0
            for f in flags:
                if f & 2:
                    dx = d[p]
                    p += 1
                    x += dx if f & 16 else -dx
                elif not f & 16:
                    x += i16(d, p)
                    p += 2
                xs.append(x)
            ys = []
            y = 0
            for f in flags:
                if f & 4:
                    dy = d[p]
                    p += 1
                    y += dy if f & 32 else -dy
                elif not f & 32:
                    y += i16(d, p)
                    p += 2
                ys.append(y)
            glyphs.append(dict(nc=nc, bbox=bbox, pts=list(zip(xs, ys)), ends=ends, ilen=il))
        else:
            comps = []
            p = 10
            while True:
                fl = u16(d, p)
                gi = u16(d, p + 2)
                p += 4
                if fl & 1:
                    a1, a2 = struct.unpack_from(">hh" if fl & 2 else ">HH", d, p)
                    p += 4
                else:
                    a1, a2 = struct.unpack_from(">bb" if fl & 2 else ">BB", d, p)
                    p += 2
                t = (1.0, 0.0, 0.0, 1.0)
                if fl & 8:
                    s = i16(d, p) / 16384
                    p += 2
                    t = (s, 0.0, 0.0, s)
                elif fl & 0x40:
                    sx = i16(d, p) / 16384
                    sy = i16(d, p + 2) / 16384
                    p += 4
                    t = (sx, 0.0, 0.0, sy)
                elif fl & 0x80:
                    a, b_, c, dd = [v / 16384 for v in struct.unpack_from(">4h", d, p)]
                    p += 8
                    t = (a, b_, c, dd)
                comps.append(dict(flags=fl, gid=gi, a1=a1, a2=a2, t=t))
                if not fl & 0x20:
                    break
            glyphs.append(dict(nc=-1, bbox=bbox, comps=comps))
    return fmt, ng, offs, glyphs, errs


def flat(glyphs, gi, depth=0):
    """(points or [] , nPoints, nContours, depth, exact) — exact is False when a component uses
    anchor-point placement or a non-identity transform (bounds then not recomputed here)."""
    if depth > 32 or gi >= len(glyphs):
        return [], 0, 0, 0, False
    g = glyphs[gi]
    if g is None:
        return [], 0, 0, 0, True
    if g["nc"] >= 0:
        return list(g["pts"]), len(g["pts"]), g["nc"], 0, True
    pts = []
    np_ = nc = 0
    dep = 1
    exact = True
    for c in g["comps"]:
        sub, n1, c1, d1, ok = flat(glyphs, c["gid"], depth + 1)
        np_ += n1
        nc += c1
        dep = max(dep, d1 + 1)
        if not c["flags"] & 2 or c["t"] != (1.0, 0.0, 0.0, 1.0) or not ok:
            exact = False
        else:
            pts.extend((x + c["a1"], y + c["a2"]) for x, y in sub)
    return pts, np_, nc, dep, exact


def derived(tabs, check_bounds=True, vertical=False):
    """Errors in the derived fields of a TrueType-flavoured font whose tables were all recompiled
    with recalcBBoxes=True."""
    errs = []
    fmt, ng, offs, glyphs, e = parse_glyphs(tabs)
    errs += e
    if e and not glyphs:
        return errs
    head, maxp, hhea, hmtx = tabs["head"], tabs["maxp"], tabs["hhea"], tabs["hmtx"]
    nhm = u16(hhea, 34)
    if nhm > ng or (ng and nhm == 0):
        errs.append("numberOfHMetrics %d with %d glyphs" % (nhm, ng))
        return errs
    if len(hmtx) != 4 * nhm + 2 * (ng - nhm):
        errs.append("hmtx length %d, expected %d for numberOfHMetrics=%d numGlyphs=%d" % (len(hmtx), 4 * nhm + 2 * (ng - nhm), nhm, ng))
        return errs
    adv, lsb = [], []
    for i in range(ng):
        if i < nhm:
            a, l_ = struct.unpack_from(">Hh", hmtx, 4 * i)
        else:
            a = adv[nhm - 1]
            l_ = i16(hmtx, 4 * nhm + 2 * (i - nhm))
        adv.append(a)
        lsb.append(l_)
    # the long metrics array must not end in a run that could have been trimmed... (not required by the format)
    fx0 = fy0 = 10**9
    fx1 = fy1 = -(10**9)
    mp = mc = mcp = mcc = mce = mcd = 0
    minl = minr = 10**9
    xme = -(10**9)
    anyc = False
    for i, g in enumerate(glyphs):
        if g is None or g["nc"] == 0:
            continue
        bb = g["bbox"]
        if g["nc"] > 0:
            xs = [p[0] for p in g["pts"]]
            ys = [p[1] for p in g["pts"]]
            calc = (min(xs), min(ys), max(xs), max(ys))
            if check_bounds and calc != bb:
                errs.append("glyph %d bbox %r, points give %r" % (i, bb, calc))
            mp = max(mp, len(xs))
            mc = max(mc, g["nc"])
        else:
            pts, n1, c1, dep, exact = flat(glyphs, i)
            mcp = max(mcp, n1)
            mcc = max(mcc, c1)
            mce = max(mce, len(g["comps"]))
            mcd = max(mcd, dep)
            if exact and pts and check_bounds:
                xs = [p[0] for p in pts]
                ys = [p[1] for p in pts]
                calc = (min(xs), min(ys), max(xs), max(ys))
                if calc != bb:
                    errs.append("composite %d bbox %r, flattened points give %r" % (i, bb, calc))
        fx0 = min(fx0, bb[0])
        fy0 = min(fy0, bb[1])
        fx1 = max(fx1, bb[2])
        fy1 = max(fy1, bb[3])
        w = bb[2] - bb[0]
        anyc = True
        minl = min(minl, lsb[i])
        minr = min(minr, adv[i] - lsb[i] - w)
        xme = max(xme, lsb[i] + w)
    hb_ = struct.unpack_from(">4h", head, 36)
    exp = (fx0, fy0, fx1, fy1) if anyc else (0, 0, 0, 0)
    if hb_ != exp:
        errs.append("head bbox %r, glyphs give %r" % (hb_, exp))
    if len(maxp) >= 32:
        got = struct.unpack_from(">4H", maxp, 6) + (u16(maxp, 28), u16(maxp, 30))
        exp = (mp, mc, mcp, mcc, mce, mcd)
        if got != exp:
            errs.append("maxp (maxPoints, maxContours, maxCompositePoints, maxCompositeContours, maxComponentElements, maxComponentDepth) %r, glyphs give %r" % (got, exp))
    awm = u16(hhea, 10)
    gl, gr, gx = struct.unpack_from(">3h", hhea, 12)
    if adv and awm != max(adv):
        errs.append("hhea.advanceWidthMax %d, hmtx gives %d" % (awm, max(adv)))
    exp = (minl, minr, xme) if anyc else (0, 0, 0)
    if (gl, gr, gx) != exp:
        errs.append("hhea (minLeftSideBearing, minRightSideBearing, xMaxExtent) %r, glyphs give %r" % ((gl, gr, gx), exp))
    if vertical and "vhea" in tabs and "vmtx" in tabs and len(tabs["vhea"]) >= 36:
        # the vertical header's extents, when that table was recompiled with the outlines decoded: every glyph
        # with an outline counts, also one whose box has no height
        vm = read_metrics(tabs, "vhea", "vmtx")
        if vm is not None and len(vm) == ng:
            vhea = tabs["vhea"]
            mint = minb = 10**9
            yme = -(10**9)
            anyv = False
            for i, g in enumerate(glyphs):
                if g is None or g["nc"] == 0:
                    continue
                hgt = g["bbox"][3] - g["bbox"][1]
                anyv = True
                mint = min(mint, vm[i][1])
                minb = min(minb, vm[i][0] - vm[i][1] - hgt)
                yme = max(yme, vm[i][1] + hgt)
            got = (u16(vhea, 10),) + struct.unpack_from(">3h", vhea, 12)
            exp = (max(a for a, _ in vm),) + ((mint, minb, yme) if anyv else (0, 0, 0))
            if got != exp:
                errs.append("vhea (advanceHeightMax, minTopSideBearing, minBottomSideBearing, yMaxExtent) %r, glyphs give %r" % (got, exp))
    if fmt == 0 and offs and offs[-1] >= 0x20000:
        errs.append("short loca format with glyf of %d bytes" % offs[-1])
    if fmt == 0 and any(o % 2 for o in offs):
        errs.append("short loca with odd offset")
    return errs


def read_metrics(tabs, header="hhea", metrics="hmtx"):
    """[(advance, sideBearing)] per glyph id, read independently (None if inconsistent)."""
    if header not in tabs or metrics not in tabs or "maxp" not in tabs:
        return None
    ng = u16(tabs["maxp"], 4)
    n = u16(tabs[header], 34)
    m = tabs[metrics]
    if n > ng or (ng and n == 0) or len(m) < 4 * n + 2 * (ng - n):
        return None
    out = []
    for i in range(ng):
        if i < n:
            a, l_ = struct.unpack_from(">Hh", m, 4 * i)
        else:
            a = out[n - 1][0]
            l_ = i16(m, 4 * n + 2 * (i - n))
        out.append((a, l_))
    return out
