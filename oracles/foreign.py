"""Tables as another conforming writer stores them, assembled from the specification and sharing no
code with fontTools. The corpus fonts were all written by a handful of tools; these builders add the
valid-but-unusual layouts those tools never emit:

* cmap_multiplex: the font's own cmap subtables plus subtables in formats fontTools has no decoder for
  (raw format 8 / 10 subtables taken from the AOTS corpus fonts), several of them, and encoding records
  that alias one subtable;
* gpos_unsorted: a small GPOS table whose (format 2) Coverage tables number their glyphs in an order other
  than glyph id order (seen in SIL fonts; shapers and fontTools accept it), attached to data indexed by coverage index
  (SinglePos format 2 values, PairPos format 1 pair sets).
"""
import struct


def u16(b, o):
    return struct.unpack_from(">H", b, o)[0]


def u32(b, o):
    return struct.unpack_from(">L", b, o)[0]


def cmap_subtables(cmap):
    """[(platformID, encodingID, offset)], {offset: raw subtable bytes} or None when inconsistent."""
    if len(cmap) < 4:
        return None
    n = u16(cmap, 2)
    if len(cmap) < 4 + 8 * n:
        return None
    recs = []
    subs = {}
    for i in range(n):
        pid, eid, off = struct.unpack_from(">HHL", cmap, 4 + 8 * i)
        if off + 8 > len(cmap):
            return None
        fmt = u16(cmap, off)
        if fmt in (0, 2, 4, 6):
            ln = u16(cmap, off + 2)
        elif fmt in (8, 10, 12, 13):
            ln = u32(cmap, off + 4)
        elif fmt == 14:
            ln = u32(cmap, off + 2)
        else:
            return None
        if ln < 6 or off + ln > len(cmap):
            return None
        recs.append((pid, eid, off))
        subs[off] = cmap[off : off + ln]
    return recs, subs


def build_cmap(records):
    """records: [(platformID, encodingID, key)] with {key: bytes}; records sorted as the format requires,
    one copy of each distinct subtable, 4-byte aligned."""
    recs, subs = records
    recs = sorted(recs)
    hdr = 4 + 8 * len(recs)
    offs = {}
    body = b""
    for _, _, key in recs:
        if key not in offs:
            offs[key] = hdr + len(body)
            d = subs[key]
            body += d + b"\0" * ((-len(d)) % 4)
    out = struct.pack(">HH", 0, len(recs))
    for pid, eid, key in recs:
        out += struct.pack(">HHL", pid, eid, offs[key])
    return out + body


def cmap_multiplex(cmap, donors, rng):
    """A cmap holding what `cmap` holds plus 1..3 undecodable-format subtables and perhaps an alias
    record. donors: raw subtables (formats 8 / 10). Returns bytes or None."""
    p = cmap_subtables(cmap)
    if p is None or not donors:
        return None
    recs, subs = p
    used = {(a, b) for a, b, _ in recs}
    free = [k for k in [(3, 10), (0, 4), (0, 6), (0, 10), (3, 9)] if k not in used]
    rng.shuffle(free)
    new = list(recs)
    allsubs = dict(subs)
    n_add = rng.choice([1, 2, 2, 3])
    for i in range(min(n_add, len(free))):
        d = rng.choice(donors)
        key = "donor%d" % i
        allsubs[key] = d
        new.append((free[i][0], free[i][1], key))
    free = free[n_add:]
    if free and recs and rng.random() < 0.5:
        # a second encoding record for an existing subtable
        new.append((free[0][0], free[0][1], rng.choice(recs)[2]))
    return build_cmap((new, allsubs))


def _coverage(gids, fmt):
    """Coverage table listing gids in the given order (coverage index = position)."""
    if fmt == 1:
        return struct.pack(">HH", 1, len(gids)) + b"".join(struct.pack(">H", g) for g in gids)
    # format 2: one range per maximal ascending run of consecutive ids, in coverage order
    ranges = []
    i = 0
    while i < len(gids):
        j = i
        while j + 1 < len(gids) and gids[j + 1] == gids[j] + 1:
            j += 1
        ranges.append((gids[i], gids[j], i))
        i = j + 1
    # range records must be sorted by start glyph id; StartCoverageIndex keeps the coverage order
    ranges.sort()
    return struct.pack(">HH", 2, len(ranges)) + b"".join(struct.pack(">HHH", a, b, ci) for a, b, ci in ranges)


def _single_pos2(gids, advances, covfmt):
    # SinglePosFormat2: format, coverageOffset, valueFormat (XAdvance = 4), valueCount, values
    hdr = struct.pack(">HHHH", 2, 8 + 2 * len(gids), 0x0004, len(gids))
    return hdr + b"".join(struct.pack(">h", a) for a in advances) + _coverage(gids, covfmt)


def _pair_pos1(gids, seconds, values, covfmt):
    # PairPosFormat1: format, coverageOffset, valueFormat1 (XAdvance), valueFormat2 (0), pairSetCount, offsets
    n = len(gids)
    hdr_len = 10 + 2 * n
    sets = []
    for i in range(n):
        pairs = sorted(zip(seconds[i], values[i]))
        sets.append(struct.pack(">H", len(pairs)) + b"".join(struct.pack(">Hh", g2, v) for g2, v in pairs))
    offs = []
    pos = hdr_len
    for s in sets:
        offs.append(pos)
        pos += len(s)
    cov = _coverage(gids, covfmt)
    out = struct.pack(">HHHHH", 1, pos, 0x0004, 0, n) + b"".join(struct.pack(">H", o) for o in offs)
    return out + b"".join(sets) + cov


def gpos_unsorted(num_glyphs, rng):
    """(GPOS table bytes, expectation) — expectation: {"single": {gid: xAdvance}, "pair": {(g1, g2): xAdvance}}.
    None when the font has too few glyphs."""
    if num_glyphs < 12:
        return None
    top = min(num_glyphs, 400)
    k = rng.randint(3, min(9, top - 2))
    gids = rng.sample(range(1, top), k)
    if gids == sorted(gids):
        gids.reverse()
    lookups = []
    exp = {"single": {}, "pair": {}}
    kinds = rng.choice([["single"], ["pair"], ["single", "pair"]])
    for kind in kinds:
        # format 2 only: a format 1 glyph array must be in glyph id order (shapers binary-search it), while
        # format 2 ranges are sorted by start glyph and carry their coverage index explicitly
        covfmt = 2
        if kind == "single":
            adv = [rng.randint(-300, 300) or 7 for _ in gids]
            st = _single_pos2(gids, adv, covfmt)
            exp["single"] = dict(zip(gids, adv))
            ltype = 1
        else:
            seconds = [sorted(rng.sample(range(1, top), rng.randint(1, 3))) for _ in gids]
            values = [[rng.randint(-200, 200) or 5 for _ in s] for s in seconds]
            st = _pair_pos1(gids, seconds, values, covfmt)
            for g, ss, vv in zip(gids, seconds, values):
                for g2, v in zip(ss, vv):
                    exp["pair"][(g, g2)] = v
            ltype = 2
        # Lookup: type, flag, subTableCount, offset
        lookups.append(struct.pack(">HHHH", ltype, 0, 1, 8) + st)
    # LookupList
    ll = struct.pack(">H", len(lookups))
    pos = 2 + 2 * len(lookups)
    for lk in lookups:
        ll += struct.pack(">H", pos)
        pos += len(lk)
    ll += b"".join(lookups)
    # FeatureList: one 'kern' feature with all lookups
    feat = struct.pack(">HH", 0, len(lookups)) + b"".join(struct.pack(">H", i) for i in range(len(lookups)))
    fl = struct.pack(">H", 1) + b"kern" + struct.pack(">H", 8) + feat
    # ScriptList: DFLT with default LangSys
    langsys = struct.pack(">HHH", 0, 0xFFFF, 1) + struct.pack(">H", 0)
    script = struct.pack(">HH", 4, 0) + langsys
    sl = struct.pack(">H", 1) + b"DFLT" + struct.pack(">H", 8) + script
    hdr_len = 10
    out = struct.pack(">HHHHH", 1, 0, hdr_len, hdr_len + len(sl), hdr_len + len(sl) + len(fl))
    return out + sl + fl + ll, exp


def vdmx(rng):
    """VDMX table (vertical device metrics) as rasteriser-tuned TrueType fonts carry it: a few ratio ranges
    pointing at height groups, several ranges sharing one group and groups stored in another order than
    the ranges that use them (both explicitly allowed)."""
    n_groups = rng.randint(1, 3)
    n_ratios = rng.randint(n_groups, n_groups + 2)
    groups = []
    for _ in range(n_groups):
        lo = rng.randint(6, 10)
        hi = lo + rng.randint(1, 8)
        ents = b"".join(struct.pack(">Hhh", y, y + rng.randint(0, 3), -(y // 4) - rng.randint(0, 2)) for y in range(lo, hi + 1))
        groups.append(struct.pack(">HBB", hi - lo + 1, lo, hi) + ents)
    # which group each ratio range uses: every group at least once, otherwise free
    use = list(range(n_groups)) + [rng.randrange(n_groups) for _ in range(n_ratios - n_groups)]
    rng.shuffle(use)
    hdr_len = 6 + 4 * n_ratios + 2 * n_ratios
    offs, pos = [], hdr_len
    for g in groups:
        offs.append(pos)
        pos += len(g)
    out = struct.pack(">HHH", rng.choice([0, 1]), n_groups, n_ratios)
    for i in range(n_ratios):
        last = i == n_ratios - 1
        out += struct.pack(">BBBB", rng.choice([0, 1]), 0 if last else rng.choice([1, 2, 4]), 0 if last else 1, 0 if last else rng.choice([1, 2, 3]))
    out += b"".join(struct.pack(">H", offs[u]) for u in use)
    return out + b"".join(groups)


def hdmx(num_glyphs, rng):
    """hdmx: device advance widths for a few ppem sizes; records padded to a multiple of four bytes."""
    sizes = sorted(rng.sample(range(8, 40), rng.randint(1, 4)))
    rec = 2 + num_glyphs
    rec += (-rec) % 4
    out = struct.pack(">HhL", 0, len(sizes), rec)
    for ppem in sizes:
        w = bytes(min(255, (ppem * (3 + (g * 7) % 5)) // 8) for g in range(num_glyphs))
        out += bytes([ppem, max(w) if w else 0]) + w + b"\0" * (rec - 2 - num_glyphs)
    return out


def ltsh(num_glyphs, rng):
    """LTSH: the ppem from which each glyph scales linearly."""
    return struct.pack(">HH", 0, num_glyphs) + bytes(rng.choice([1, 1, 9, 12, 50, 255]) for _ in range(num_glyphs))


def vorg(num_glyphs, rng):
    """VORG: vertical origins, sorted by glyph id; a writer may store a record that repeats the default."""
    default = rng.choice([880, 0, -120, 1000])
    gids = sorted(rng.sample(range(num_glyphs), min(num_glyphs, rng.choice([0, 1, 2, 5]))))
    recs = [(g, default if rng.random() < 0.4 else rng.randrange(-500, 1500)) for g in gids]
    return struct.pack(">HHhH", 1, 0, default, len(recs)) + b"".join(struct.pack(">Hh", g, y) for g, y in recs)


def post2(post, num_glyphs, rng, dup_pool=False):
    """A format 2.0 'post' table for a TrueType font as name-conscious (and careless) tools write them:
    standard Macintosh names by index, own names as Pascal strings, two glyphs sharing one name, and an
    own name that is the empty string. Header fields are taken from the font's own post table."""
    if len(post) < 32 or num_glyphs < 4:
        return None
    hdr = struct.pack(">L", 0x00020000) + post[4:32]
    idx = [0]
    names = []
    used_std = {0}
    for g in range(1, num_glyphs):
        q = rng.random()
        if q < 0.3:
            k = rng.randrange(1, 258)
            if k not in used_std:
                used_std.add(k)
                idx.append(k)
                continue
        if names and q > 0.93:
            idx.append(258 + rng.randrange(len(names)))  # a name already used by another glyph
            continue
        names.append("n%03d%s" % (g, rng.choice(["", ".alt", "_x", ".sc"])))
        idx.append(258 + len(names) - 1)
    if names and rng.random() < 0.6:
        names[rng.randrange(len(names))] = ""  # an empty Pascal string
    if dup_pool and names:
        # a writer that appends one string per glyph without uniquing: the pool holds one string twice (or
        # three times), glyphs pointing at either copy, perhaps a copy nobody points at
        for _ in range(rng.choice([1, 1, 2])):
            j = rng.randrange(len(names))
            names.append(names[j])
            users = [g for g, i in enumerate(idx) if i == 258 + j]
            if users and rng.random() < 0.7:
                idx[rng.choice(users)] = 258 + len(names) - 1
    out = hdr + struct.pack(">H", num_glyphs) + b"".join(struct.pack(">H", i) for i in idx)
    return out + b"".join(bytes([len(n)]) + n.encode("ascii") for n in names)


def _device(start, deltas, fmt):
    """Device table: per-ppem adjustments start..start+len-1 packed 2, 4 or 8 bits each, the last word padded."""
    bits = {1: 2, 2: 4, 3: 8}[fmt]
    per = 16 // bits
    words = []
    for i in range(0, len(deltas), per):
        w = 0
        for j, d in enumerate(deltas[i : i + per]):
            w |= (d & ((1 << bits) - 1)) << (16 - bits * (j + 1))
        words.append(w)
    return struct.pack(">HHH", start, start + len(deltas) - 1, fmt) + b"".join(struct.pack(">H", w) for w in words)


def gpos_devices(num_glyphs, rng):
    """A GPOS table of hinted fonts: SinglePos format 1 subtables whose value records point at Device
    tables (per-ppem pixel adjustments). The size ranges reach past the last non-zero adjustment (a tool
    that writes a fixed range), so the final, partly filled word of a Device is often all zero bits; the
    Devices sit back to back. Returns (bytes, {gid: [(startSize, [deltas]) for X, for Y]})."""
    if num_glyphs < 6:
        return None
    top = min(num_glyphs, 300)
    gids = sorted(rng.sample(range(1, top), min(top - 1, rng.randint(2, 5))))
    subtables = []
    exp = {}
    for g in gids:
        devs = []
        raw = []
        for _axis in range(2):
            fmt = rng.choice([1, 2, 3])
            lim = {1: 1, 2: 7, 3: 127}[fmt]
            per = {1: 8, 2: 4, 3: 2}[fmt]
            n_nonzero = rng.randint(1, 2 * per)
            n_zero = rng.choice([0, 1, per - 1, per - 1, per, per + 1])
            deltas = [rng.choice([-lim - 1, -1, 1, lim]) for _ in range(n_nonzero)] + [0] * n_zero
            start = rng.choice([8, 9, 12, 64, 200, 300, 1000])
            devs.append((start, deltas))
            raw.append(_device(start, deltas, fmt))
        cov = struct.pack(">HHH", 1, 1, g)
        xoff = 10
        yoff = xoff + len(raw[0])
        coff = yoff + len(raw[1])
        st = struct.pack(">HHHHH", 1, coff, 0x0030, xoff, yoff) + raw[0] + raw[1] + cov
        subtables.append(st)
        exp[g] = devs
    n = len(subtables)
    lk = struct.pack(">HHH", 1, 0, n)
    pos = 6 + 2 * n
    for st in subtables:
        lk += struct.pack(">H", pos)
        pos += len(st)
    lk += b"".join(subtables)
    ll = struct.pack(">HH", 1, 4) + lk
    feat = struct.pack(">HHH", 0, 1, 0)
    fl = struct.pack(">H", 1) + b"kern" + struct.pack(">H", 8) + feat
    langsys = struct.pack(">HHH", 0, 0xFFFF, 1) + struct.pack(">H", 0)
    script = struct.pack(">HH", 4, 0) + langsys
    sl = struct.pack(">H", 1) + b"DFLT" + struct.pack(">H", 8) + script
    out = struct.pack(">HHHHH", 1, 0, 10, 10 + len(sl), 10 + len(sl) + len(fl))
    return out + sl + fl + ll, exp


def fvar_partial_psnames(fvar, rng):
    """The same fvar with the PostScript name of some (not all) named instances set to 0xFFFF ("none"), which
    the format allows per instance; None when the instance records have no such field or there are < 2."""
    if len(fvar) < 16:
        return None
    off, _res, nax, axsz, ninst, instsz = struct.unpack_from(">HHHHHH", fvar, 4)
    if ninst < 2 or instsz != 4 * nax + 6:
        return None
    base = off + nax * axsz
    if base + ninst * instsz > len(fvar):
        return None
    b = bytearray(fvar)
    which = rng.sample(range(ninst), rng.randint(1, ninst - 1))
    for i in which:
        struct.pack_into(">H", b, base + i * instsz + 4 + 4 * nax, 0xFFFF)
    return bytes(b)
